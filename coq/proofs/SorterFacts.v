(* SorterFacts.v - lemmas about model/Sorter.v for property C07.
   Hypotheses (Section variables, visible in every exported statement):
     lt_swo   : the key order is a strict weak order
     pick_ok  : the host oracle (sorted()/heapq) returns a minimal element and
                a permutation of the rest, for every strict weak order
     codec_ok : decoding an encoded item succeeds, re-encodes to the same
                text, and has a key equivalent to the original's *)
From Coq Require Import Permutation Sorted.
From MafVerif Require Import lib.Base lib.SorterLib model.Sorter.

Section Facts.
  Variables A K D : Type.
  Variable keyf : A -> res K.
  Variable lt : K -> K -> bool.
  Variable enc : A -> D.
  Variable dec : D -> res A.
  Variable pick_min : forall X : Type, (X -> X -> bool) -> list X -> option (X * list X).

  Definition pick_contract : Prop :=
    forall (X : Type) (ltx : X -> X -> bool) (l : list X), swo X ltx -> l <> [] ->
      exists x r, pick_min X ltx l = Some (x, r) /\ Permutation (x :: r) l /\
                  Forall (fun y => ltx y x = false) r.

  Definition codec_contract : Prop :=
    forall a k, keyf a = Ok k ->
      exists a' k', dec (enc a) = Ok a' /\ enc a' = enc a /\ keyf a' = Ok k' /\ eqv K lt k k'.

  Hypothesis lt_swo : swo K lt.
  Hypothesis pick_ok : pick_contract.
  Hypothesis codec_ok : codec_contract.

  Notation le := (le K lt).
  Notation eqv := (eqv K lt).
  Notation sorter := (sorter K D).
  Notation cursor := (cursor A K D).
  Notation add := (add A K D keyf lt enc pick_min).
  Notation adds := (adds A K D keyf lt enc pick_min).
  Notation spill := (spill K D lt pick_min).
  Notation iter := (iter A K D keyf lt dec pick_min).
  Notation merge := (merge A K D keyf lt dec pick_min).
  Notation mk_cursors := (mk_cursors A K D keyf dec).
  Notation advance := (advance A K D keyf dec).
  Notation sort_with := (sort_with pick_min).
  Notation sort_entries := (sort_entries K D lt pick_min).

  (* ---------- sorted() ---------- *)
  Lemma sort_with_ok (X : Type) (ltx : X -> X -> bool) (Hx : swo X ltx) :
    forall fuel l, (length l <= fuel)%nat ->
      exists l', sort_with ltx fuel l = Some l' /\ Permutation l' l /\
                 StronglySorted (fun a b => ltx b a = false) l'.
  Proof.
    induction fuel as [| f IH]; intros l Hl.
    - destruct l; simpl in Hl; [| lia]. exists []. simpl. repeat split; constructor.
    - destruct l as [| y l0]. { exists []. simpl. repeat split; constructor. }
      remember (y :: l0) as l eqn:El.
      assert (Hne : l <> []) by (subst; discriminate).
      destruct (pick_ok X ltx l Hx Hne) as (x & r & Hp & Hperm & Hmin).
      assert (Hlen : (length r <= f)%nat).
      { apply Permutation_length in Hperm. simpl in Hperm. lia. }
      destruct (IH r Hlen) as (r' & Hs & Hpr & Hsr).
      exists (x :: r'). split; [| split].
      + subst l. simpl. simpl in Hp. rewrite Hp, Hs. reflexivity.
      + eapply Permutation_trans; [| exact Hperm]. constructor. exact Hpr.
      + constructor; [exact Hsr |].
        eapply Permutation_Forall; [apply Permutation_sym; exact Hpr | exact Hmin].
  Qed.

  Lemma sort_entries_ok (l : list (K * D)) :
    exists l', sort_entries l = Some l' /\ Permutation l' l /\ StronglySorted le (map fst l').
  Proof.
    unfold Sorter.sort_entries.
    destruct (sort_with_ok (K * D) (lt_entry K D lt) (swo_pullback _ K lt fst lt_swo) (length l) l (le_n _))
      as (l' & Hs & Hp & Hsrt).
    exists l'. repeat split; try assumption.
    apply StronglySorted_map with (R := le) (f := fst). exact Hsrt.
  Qed.

  (* ---------- data that came out of the codec ---------- *)
  Definition good_d (d : D) : Prop := exists x k, keyf x = Ok k /\ d = enc x.
  Definition good_entry (e : K * D) : Prop := exists x, keyf x = Ok (fst e) /\ snd e = enc x.
  (* the key of the decoded copy *)
  Definition dk (d : D) (k : K) : Prop := exists a, dec d = Ok a /\ keyf a = Ok k.

  Lemma dk_fun d k k' : dk d k -> dk d k' -> k = k'.
  Proof. intros (a & Ha & Ka) (a' & Ha' & Ka'). congruence. Qed.

  Lemma good_d_dec d : good_d d ->
    exists a k, dec d = Ok a /\ enc a = d /\ keyf a = Ok k /\ dec (enc a) = Ok a.
  Proof.
    intros (x & k & Hk & ->). destruct (codec_ok x k Hk) as (a' & k' & Hd & He & Hk' & _).
    exists a', k'. repeat split; try assumption. rewrite He. exact Hd.
  Qed.

  Lemma good_entry_d e : good_entry e -> good_d (snd e).
  Proof. intros (x & Hk & He). exists x, (fst e). split; assumption. Qed.

  Lemma good_entry_dk e : good_entry e -> exists k', dk (snd e) k' /\ eqv (fst e) k'.
  Proof.
    intros (x & Hk & He). destruct (codec_ok x _ Hk) as (a' & k' & Hd & _ & Hk' & Heq).
    exists k'. split; [| exact Heq]. exists a'. rewrite He. split; assumption.
  Qed.

  Definition chunk_sorted (c : list D) : Prop :=
    exists ks, Forall2 dk c ks /\ StronglySorted le ks.
  Definition chunk_ok (c : list D) : Prop := c <> [] /\ Forall good_d c /\ chunk_sorted c.

  Lemma entries_chunk_sorted (l : list (K * D)) :
    Forall good_entry l -> StronglySorted le (map fst l) -> chunk_sorted (map snd l).
  Proof.
    intros G S.
    assert (exists ks, Forall2 dk (map snd l) ks /\ Forall2 eqv (map fst l) ks) as (ks & F1 & F2).
    { clear S. induction G as [| e l Ge G IH].
      - exists []. split; constructor.
      - destruct IH as (ks & F1 & F2). destruct (good_entry_dk e Ge) as (k' & Hdk & Heq).
        exists (k' :: ks). split; constructor; assumption. }
    exists ks. split; [exact F1 |]. eapply sorted_eqv; eauto.
  Qed.

  (* ---------- the sorter invariant ---------- *)
  Definition all_data (s : sorter) : list D := concat (chunks s) ++ map snd (stash s).

  Definition Inv (s : sorter) (xs : list A) : Prop :=
    (1 <= cap s)%nat /\ (length (stash s) < cap s)%nat /\
    Forall good_entry (stash s) /\ Forall chunk_ok (chunks s) /\
    Permutation (all_data s) (map enc xs).

  Lemma inv_new c al : (1 <= c)%nat -> Inv (new K D c al) [].
  Proof. intros Hc. unfold Inv, all_data. simpl. repeat split; try constructor; lia. Qed.

  (* spilling a non-empty stash of good entries *)
  Lemma spill_ok (s : sorter) :
    Forall good_entry (stash s) -> stash s <> [] ->
    exists c, spill s = Ok {| cap := cap s; always := always s; stash := []; chunks := chunks s ++ [c] |} /\
              chunk_ok c /\ Permutation c (map snd (stash s)).
  Proof.
    intros G Hne. unfold Sorter.spill.
    destruct (stash s) as [| e st] eqn:Es; [congruence |].
    destruct (sort_entries_ok (e :: st)) as (l & Hs & Hp & Hsrt).
    rewrite Hs. exists (map snd l). split; [reflexivity |]. split; [| apply Permutation_map; exact Hp].
    assert (Gl : Forall good_entry l) by (eapply Permutation_Forall; [apply Permutation_sym; exact Hp | exact G]).
    split; [| split].
    - intros E. apply map_eq_nil in E. subst l. apply Permutation_nil in Hp. discriminate.
    - rewrite Forall_map. eapply Forall_impl; [| exact Gl]. intros a. apply good_entry_d.
    - apply entries_chunk_sorted; assumption.
  Qed.

  Lemma add_inv s xs x s' : Inv s xs -> add s x = Ok s' -> Inv s' (xs ++ [x]).
  Proof.
    intros (Hc & Hl & Gs & Gc & Hp) Ha. unfold Sorter.add in Ha.
    destruct (keyf x) as [k |] eqn:Hk; simpl in Ha; [| discriminate].
    destruct (cap s <=? length (stash s))%nat eqn:Hfull.
    { apply Nat.leb_le in Hfull. lia. }
    set (s1 := with_stash K D s (stash s ++ [(k, enc x)])) in *.
    assert (G1 : Forall good_entry (stash s1)).
    { simpl. apply Forall_app. split; [exact Gs |]. constructor; [| constructor]. exists x. split; [exact Hk | reflexivity]. }
    assert (P1 : Permutation (all_data s1) (map enc (xs ++ [x]))).
    { unfold all_data. simpl. rewrite !map_app. simpl. rewrite app_assoc. apply Permutation_app_tail. exact Hp. }
    assert (Es1 : stash s1 = stash s ++ [(k, enc x)]) by reflexivity.
    rewrite <- Es1 in Ha.
    destruct (length (stash s1) =? cap s)%nat eqn:Heq.
    - assert (Hne : stash s1 <> []). { simpl. destruct (stash s); discriminate. }
      destruct (spill_ok s1 G1 Hne) as (c & Hsp & Hcok & Hpc).
      rewrite Hsp in Ha. injection Ha as <-. unfold Inv, all_data. simpl.
      repeat split; try assumption; try lia; try constructor.
      + apply Forall_app. split; [exact Gc | constructor; [exact Hcok | constructor]].
      + rewrite app_nil_r, concat_app. simpl. rewrite app_nil_r.
        eapply Permutation_trans; [| exact P1]. unfold all_data. simpl.
        apply Permutation_app_head. exact Hpc.
    - injection Ha as <-. apply Nat.eqb_neq in Heq. apply Nat.leb_gt in Hfull.
      unfold Inv. repeat split; try assumption.
      simpl in *. rewrite app_length in *. simpl in *. lia.
  Qed.

  Lemma adds_inv xs : forall s pre s', Inv s pre -> adds s xs = Ok s' -> Inv s' (pre ++ xs).
  Proof.
    induction xs as [| x r IH]; intros s pre s' I Ha; simpl in Ha.
    - injection Ha as <-. rewrite app_nil_r. exact I.
    - destruct (add s x) as [s1 |] eqn:Hadd; simpl in Ha; [| discriminate].
      replace (pre ++ x :: r) with ((pre ++ [x]) ++ r) by (rewrite <- app_assoc; reflexivity).
      eapply IH; [| exact Ha]. eapply add_inv; eauto.
  Qed.

  (* ---------- cursors and the merge ---------- *)
  Definition cursor_ok (c : cursor) : Prop :=
    keyf (hval c) = Ok (hkey c) /\ dec (enc (hval c)) = Ok (hval c) /\ Forall good_d (crest c) /\
    exists ks, Forall2 dk (crest c) ks /\ StronglySorted le (hkey c :: ks).
  Definition cursor_data (c : cursor) : list D := enc (hval c) :: crest c.

  Lemma advance_ok d r k0 :
    good_d d -> Forall good_d r ->
    (exists ks, Forall2 dk (d :: r) ks /\ StronglySorted le (k0 :: ks)) ->
    exists c, advance (d :: r) = Ok (Some c) /\ cursor_ok c /\ cursor_data c = d :: r /\ le k0 (hkey c).
  Proof.
    intros Gd Gr (ks & F & S).
    destruct (good_d_dec d Gd) as (a & k & Hd & He & Hk & Hde).
    exists {| hkey := k; hval := a; crest := r |}. unfold Sorter.advance. rewrite Hd. simpl. rewrite Hk. simpl.
    inversion F as [| ? k1 ? ks1 Hdk F']; subst.
    assert (k1 = k) by (eapply dk_fun; [exact Hdk | exists a; split; assumption]). subst k1.
    inversion S as [| ? ? S' Fk]; subst. inversion Fk; subst.
    split; [reflexivity |]. split; [| split].
    - unfold cursor_ok. simpl. repeat split; try assumption. exists ks1. split; assumption.
    - reflexivity.
    - simpl. assumption.
  Qed.

  Lemma mk_cursors_ok cs : Forall chunk_ok cs ->
    exists heap, mk_cursors cs = Ok heap /\ Forall cursor_ok heap /\ map cursor_data heap = cs.
  Proof.
    induction 1 as [| c cs (Hne & G & (ks & F & S)) Hcs IH].
    - exists []. simpl. repeat split; constructor.
    - destruct IH as (heap & Hm & Hok & Hdata).
      destruct c as [| d r]; [congruence |]. inversion G; subst.
      (* any lower bound will do for the first record: use its own key *)
      inversion F as [| ? k1 ? ks1 Hdk F']; subst.
      destruct (advance_ok d r k1 H1 H2) as (cu & Ha & Hcu & Hcd & _).
      { exists (k1 :: ks1). split; [exact F |]. constructor; [exact S |].
        constructor; [apply le_refl; exact lt_swo |]. inversion S; assumption. }
      exists (cu :: heap). split; [| split; [constructor; assumption | simpl; congruence]].
      simpl. unfold Sorter.advance in Ha. rewrite Ha. simpl. rewrite Hm. reflexivity.
  Qed.

  Lemma heap_size_perm (h h' : list cursor) : Permutation h h' -> heap_size A K D h = heap_size A K D h'.
  Proof. induction 1; simpl; lia. Qed.

  Lemma merge_ok : forall fuel heap,
    Forall cursor_ok heap -> (heap_size A K D heap <= fuel)%nat ->
    exists kys, merge fuel heap = (kys, None) /\
      Permutation (map (fun ka => enc (snd ka)) kys) (concat (map cursor_data heap)) /\
      Forall (fun ka => keyf (snd ka) = Ok (fst ka) /\ dec (enc (snd ka)) = Ok (snd ka)) kys /\
      StronglySorted le (map fst kys) /\
      (forall k, Forall (fun c => le k (hkey c)) heap -> Forall (le k) (map fst kys)).
  Proof.
    induction fuel as [| f IH]; intros heap Hok Hsz.
    - destruct heap as [| c h]; [| simpl in Hsz; unfold cursor_size in Hsz; lia].
      exists []. simpl. repeat split; constructor.
    - destruct heap as [| c0 h0]. { exists []. simpl. repeat split; constructor. }
      remember (c0 :: h0) as heap eqn:Eh.
      assert (Hne : heap <> []) by (subst; discriminate).
      destruct (pick_ok cursor (lt_cursor A K D lt) heap (swo_pullback _ K lt hkey lt_swo) Hne)
        as (c & rest & Hp & Hperm & Hmin).
      assert (Hokp : Forall cursor_ok (c :: rest))
        by (eapply Permutation_Forall; [apply Permutation_sym; exact Hperm | exact Hok]).
      inversion Hokp as [| ? ? Hc Hrest]; subst x l.
      assert (Hszp : (cursor_size A K D c + heap_size A K D rest <= S f)%nat).
      { rewrite (heap_size_perm _ _ (Permutation_sym Hperm)) in Hsz. simpl in Hsz. exact Hsz. }
      assert (Hdata : Permutation (concat (map cursor_data heap)) (cursor_data c ++ concat (map cursor_data rest))).
      { change (cursor_data c ++ concat (map cursor_data rest)) with (concat (map cursor_data (c :: rest))).
        apply Permutation_concat. apply Permutation_map. apply Permutation_sym. exact Hperm. }
      assert (Hlb : forall k, Forall (fun c => le k (hkey c)) heap -> le k (hkey c) /\ Forall (fun c => le k (hkey c)) rest).
      { intros k Fk. assert (Fk' : Forall (fun c => le k (hkey c)) (c :: rest))
          by (eapply Permutation_Forall; [apply Permutation_sym; exact Hperm | exact Fk]).
        inversion Fk'; split; assumption. }
      destruct Hc as (Hk & Hde & Gr & (ks & Fks & Sks)).
      assert (Step : merge (S f) heap =
                     match advance (crest c) with
                     | Raise e => ([], Some e)
                     | Ok None => let '(ys, e) := merge f rest in ((hkey c, hval c) :: ys, e)
                     | Ok (Some c') => let '(ys, e) := merge f (c' :: rest) in ((hkey c, hval c) :: ys, e)
                     end).
      { subst heap. simpl. simpl in Hp. rewrite Hp. reflexivity. }
      rewrite Step. clear Step.
      destruct (crest c) as [| d r] eqn:Ecr.
      + (* the popped cursor is exhausted *)
        simpl Sorter.advance. cbv iota beta.
        assert (Hsz' : (heap_size A K D rest <= f)%nat) by (unfold cursor_size in Hszp; lia).
        destruct (IH rest Hrest Hsz') as (kys & Hm & Hpk & Hfk & Hsk & Hlbk).
        rewrite Hm. exists ((hkey c, hval c) :: kys). split; [reflexivity |]. split; [| split; [| split]].
        * simpl. eapply Permutation_trans; [| apply Permutation_sym; exact Hdata].
          unfold cursor_data at 1. rewrite Ecr. simpl. constructor. exact Hpk.
        * constructor; [split; assumption | exact Hfk].
        * simpl. constructor; [exact Hsk |]. apply Hlbk. exact Hmin.
        * intros k Fk. destruct (Hlb k Fk) as (Hkc & Hkr). simpl. constructor; [exact Hkc |]. apply Hlbk; exact Hkr.
      + inversion Gr as [| ? ? Gd Gr']; subst.
        destruct (advance_ok d r (hkey c) Gd Gr') as (c' & Ha & Hc' & Hcd & Hle).
        { exists ks. split; assumption. }
        rewrite Ha.
        assert (Hsz' : (heap_size A K D (c' :: rest) <= f)%nat).
        { simpl. assert (cursor_size A K D c' = S (length r)).
          { unfold cursor_size. assert (L : length (cursor_data c') = length (d :: r)) by (rewrite Hcd; reflexivity).
            unfold cursor_data in L. simpl in L. lia. }
          unfold cursor_size in *. rewrite Ecr in Hszp. simpl in Hszp. lia. }
        destruct (IH (c' :: rest) (Forall_cons _ Hc' Hrest) Hsz') as (kys & Hm & Hpk & Hfk & Hsk & Hlbk).
        rewrite Hm. exists ((hkey c, hval c) :: kys). split; [reflexivity |]. split; [| split; [| split]].
        * simpl. eapply Permutation_trans; [| apply Permutation_sym; exact Hdata].
          unfold cursor_data at 1. rewrite Ecr. simpl. constructor.
          eapply Permutation_trans; [exact Hpk |].
          change (concat (map cursor_data (c' :: rest))) with (cursor_data c' ++ concat (map cursor_data rest)).
          rewrite Hcd. apply Permutation_refl.
        * constructor; [split; assumption | exact Hfk].
        * simpl. constructor; [exact Hsk |]. apply Hlbk. constructor; [exact Hle | exact Hmin].
        * intros k Fk. destruct (Hlb k Fk) as (Hkc & Hkr). simpl. constructor; [exact Hkc |].
          apply Hlbk. constructor; [| exact Hkr]. eapply le_trans; eauto.
  Qed.

  (* ---------- what an iteration returns ---------- *)
  (* ys is the decoding, item by item, of a permutation of the added texts,
     and its keys are non-decreasing *)
  Definition decodes (ys : list A) (ds : list D) : Prop :=
    Forall2 (fun y d => dec d = Ok y /\ enc y = d) ys ds.
  Definition keys_of (ys : list A) (ks : list K) : Prop := Forall2 (fun y k => keyf y = Ok k) ys ks.
  Definition iter_spec (xs ys : list A) : Prop :=
    (exists ds, Permutation ds (map enc xs) /\ decodes ys ds) /\
    (exists ks, keys_of ys ks /\ StronglySorted le ks).

  Lemma decode_all_ok (l : list (K * D)) :
    Forall good_entry l ->
    exists ys ks, decode_all A D dec (map snd l) = (ys, None) /\ decodes ys (map snd l) /\
                  keys_of ys ks /\ Forall2 eqv (map fst l) ks.
  Proof.
    induction 1 as [| e l Ge G IH].
    - exists [], []. simpl. repeat split; constructor.
    - destruct IH as (ys & ks & Hd & Hdec & Hk & He).
      destruct Ge as (x & Hkx & Hex).
      destruct (codec_ok x _ Hkx) as (a' & k' & Hda & Hea & Hka & Heq).
      exists (a' :: ys), (k' :: ks). simpl. rewrite Hex, Hda, Hd.
      repeat split; constructor; try assumption. split; assumption.
  Qed.

  Lemma iter_ok s xs : Inv s xs ->
    exists ys s', iter s = ((ys, None), s') /\ Inv s' xs /\ iter_spec xs ys.
  Proof.
    intros (Hc & Hl & Gs & Gc & Hp). unfold Sorter.iter.
    destruct (negb (is_nil (chunks s)) || always s) eqn:Hbr.
    - (* spill what is in memory, merge the files *)
      assert (exists s1, spill s = Ok s1 /\ Inv s1 xs /\ stash s1 = []) as (s1 & Hsp & I1 & Hst).
      { assert (Hcase : stash s = [] \/ stash s <> [])
          by (destruct (stash s); [left; reflexivity | right; discriminate]).
        destruct Hcase as [Es | Hne].
        - exists s. split; [unfold Sorter.spill; rewrite Es; reflexivity |]. split; [| exact Es].
          unfold Inv. repeat split; assumption.
        - destruct (spill_ok s Gs Hne) as (c & Hsp & Hcok & Hpc).
          eexists. split; [exact Hsp |]. split; [| reflexivity].
          unfold Inv, all_data. simpl. repeat split; try assumption; try lia; try constructor.
          + apply Forall_app. split; [exact Gc | constructor; [exact Hcok | constructor]].
          + rewrite app_nil_r, concat_app. simpl. rewrite app_nil_r.
            eapply Permutation_trans; [| exact Hp]. unfold all_data. apply Permutation_app_head. exact Hpc. }
      rewrite Hsp.
      destruct I1 as (Hc1 & Hl1 & Gs1 & Gc1 & Hp1).
      destruct (mk_cursors_ok (chunks s1) Gc1) as (heap & Hm & Hok & Hdata).
      rewrite Hm.
      destruct (merge_ok (heap_size A K D heap) heap Hok (le_n _)) as (kys & Hmg & Hpk & Hfk & Hsk & _).
      rewrite Hmg. exists (map snd kys), s1. split; [reflexivity |].
      split; [unfold Inv; repeat split; assumption |].
      split.
      + exists (map enc (map snd kys)). split.
        * rewrite map_map. eapply Permutation_trans; [exact Hpk |]. rewrite Hdata.
          unfold all_data in Hp1. rewrite Hst in Hp1. simpl in Hp1. rewrite app_nil_r in Hp1. exact Hp1.
        * unfold decodes. clear - Hfk. induction Hfk as [| ka l (Hk & Hd) F IH]; simpl; constructor; [| exact IH].
          split; [exact Hd | reflexivity].
      + exists (map fst kys). split; [| exact Hsk].
        unfold keys_of. clear - Hfk. induction Hfk as [| ka l (Hk & Hd) F IH]; simpl; constructor; assumption.
    - (* nothing was spilled: sort in memory *)
      apply orb_false_iff in Hbr. destruct Hbr as (Hnil & Hal).
      assert (Hch : chunks s = []).
      { destruct (chunks s); [reflexivity | simpl in Hnil; discriminate]. }
      destruct (sort_entries_ok (stash s)) as (l & Hs & Hpl & Hsrt).
      rewrite Hs.
      assert (Gl : Forall good_entry l) by (eapply Permutation_Forall; [apply Permutation_sym; exact Hpl | exact Gs]).
      destruct (decode_all_ok l Gl) as (ys & ks & Hd & Hdec & Hk & He).
      rewrite Hd. exists ys, (with_stash K D s l). split; [reflexivity |]. split; [| split].
      + unfold Inv, all_data. simpl. repeat split; try assumption.
        * apply Permutation_length in Hpl. lia.
        * eapply Permutation_trans; [| exact Hp]. unfold all_data.
          apply Permutation_app_head. apply Permutation_map. exact Hpl.
      + exists (map snd l). split; [| exact Hdec].
        eapply Permutation_trans; [| exact Hp]. unfold all_data. rewrite Hch. simpl.
        apply Permutation_map. exact Hpl.
      + exists ks. split; [exact Hk |]. eapply sorted_eqv; eauto.
  Qed.

  (* ---------- consequences stated on the public operations ---------- *)
  Lemma decodes_enc ys ds : decodes ys ds -> map enc ys = ds.
  Proof. induction 1 as [| y d ys ds (_ & He) F IH]; simpl; congruence. Qed.

  Lemma decodes_keys ys ds ks : decodes ys ds -> keys_of ys ks -> Forall2 dk ds ks.
  Proof.
    intros Hd. revert ks. induction Hd as [| y d ys ds (Hy & _) F IH]; intros ks Hk; inversion Hk; subst; constructor.
    - exists y. split; assumption.
    - apply IH; assumption.
  Qed.

  Theorem sorted_permutation c al xs s :
    (1 <= c)%nat -> adds (new K D c al) xs = Ok s ->
    exists ys s', iter s = ((ys, None), s') /\
      Permutation (map enc ys) (map enc xs) /\
      Forall (fun y => dec (enc y) = Ok y) ys /\
      exists ks, keys_of ys ks /\ StronglySorted le ks.
  Proof.
    intros Hc Ha.
    assert (I : Inv s xs) by (apply (adds_inv xs _ [] s (inv_new c al Hc) Ha)).
    destruct (iter_ok s xs I) as (ys & s' & Hi & _ & (ds & Hp & Hd) & Hk).
    exists ys, s'. split; [exact Hi |]. split; [| split; [| exact Hk]].
    - rewrite (decodes_enc _ _ Hd). exact Hp.
    - clear - Hd. induction Hd as [| y d ys ds (Hy & He) F IH]; constructor; [congruence | exact IH].
  Qed.

  (* two runs over permuted inputs, whatever the capacities and policies *)
  Lemma spec_keys_equiv xs xs' ys ys' :
    Permutation xs xs' -> iter_spec xs ys -> iter_spec xs' ys' ->
    exists ks ks', keys_of ys ks /\ keys_of ys' ks' /\ Forall2 eqv ks ks'.
  Proof.
    intros P ((ds & Hp & Hd) & (ks & Hk & Hs)) ((ds' & Hp' & Hd') & (ks' & Hk' & Hs')).
    exists ks, ks'. split; [exact Hk |]. split; [exact Hk' |].
    apply sorted_unique; try assumption.
    intros k. apply cnt_perm.
    apply (Forall2_perm_fun dk dk_fun ds ds').
    - eapply Permutation_trans; [exact Hp |]. eapply Permutation_trans; [| apply Permutation_sym; exact Hp'].
      apply Permutation_map. exact P.
    - eapply decodes_keys; eauto.
    - eapply decodes_keys; eauto.
  Qed.

  Theorem keys_independent c al c' al' xs xs' s t ys s1 ys' t1 :
    (1 <= c)%nat -> (1 <= c')%nat -> Permutation xs xs' ->
    adds (new K D c al) xs = Ok s -> adds (new K D c' al') xs' = Ok t ->
    iter s = ((ys, None), s1) -> iter t = ((ys', None), t1) ->
    exists ks ks', keys_of ys ks /\ keys_of ys' ks' /\ Forall2 eqv ks ks'.
  Proof.
    intros Hc Hc' P Ha Ha' Hi Hi'.
    assert (I : Inv s xs) by (apply (adds_inv xs _ [] s (inv_new c al Hc) Ha)).
    assert (I' : Inv t xs') by (apply (adds_inv xs' _ [] t (inv_new c' al' Hc') Ha')).
    destruct (iter_ok s xs I) as (y & u & Hu & _ & Sp). rewrite Hi in Hu. injection Hu as <- <-.
    destruct (iter_ok t xs' I') as (y' & u' & Hu' & _ & Sp'). rewrite Hi' in Hu'. injection Hu' as <- <-.
    eapply spec_keys_equiv; eauto.
  Qed.

  (* iterating, possibly adding more, iterating again: the invariant is kept *)
  Theorem reiteration c al xs s ys s1 :
    (1 <= c)%nat -> adds (new K D c al) xs = Ok s -> iter s = ((ys, None), s1) ->
    exists ys2 s2, iter s1 = ((ys2, None), s2) /\
      Permutation (map enc ys2) (map enc xs) /\
      exists ks ks2, keys_of ys ks /\ keys_of ys2 ks2 /\ Forall2 eqv ks ks2 /\ StronglySorted le ks2.
  Proof.
    intros Hc Ha Hi.
    assert (I : Inv s xs) by (apply (adds_inv xs _ [] s (inv_new c al Hc) Ha)).
    destruct (iter_ok s xs I) as (y & u & Hu & I1 & Sp). rewrite Hi in Hu. injection Hu as <- <-.
    destruct (iter_ok s1 xs I1) as (ys2 & s2 & Hi2 & _ & Sp2).
    exists ys2, s2. split; [exact Hi2 |]. split.
    - destruct Sp2 as ((ds & Hp & Hd) & _). rewrite (decodes_enc _ _ Hd). exact Hp.
    - destruct (spec_keys_equiv xs xs ys ys2 (Permutation_refl _) Sp Sp2) as (ks & ks2 & Hk & Hk2 & He).
      exists ks, ks2. repeat split; try assumption.
      destruct Sp2 as (_ & (k2 & Hk2' & Hs2)).
      assert (k2 = ks2).
      { clear - Hk2 Hk2'. revert ks2 Hk2. induction Hk2'; intros ks2 Hk2; inversion Hk2; subst; [reflexivity |].
        f_equal; [congruence | apply IHHk2'; assumption]. }
      subst. exact Hs2.
  Qed.

  (* records added after an iteration are merged with the earlier ones *)
  Theorem add_after_iteration c al xs s ys s1 more s2 :
    (1 <= c)%nat -> adds (new K D c al) xs = Ok s -> iter s = ((ys, None), s1) ->
    adds s1 more = Ok s2 ->
    exists ys2 s3, iter s2 = ((ys2, None), s3) /\
      Permutation (map enc ys2) (map enc (xs ++ more)) /\
      exists ks2, keys_of ys2 ks2 /\ StronglySorted le ks2.
  Proof.
    intros Hc Ha Hi Hm.
    assert (I : Inv s xs) by (apply (adds_inv xs _ [] s (inv_new c al Hc) Ha)).
    destruct (iter_ok s xs I) as (y & u & Hu & I1 & _). rewrite Hi in Hu. injection Hu as <- <-.
    assert (I2 : Inv s2 (xs ++ more)) by (eapply adds_inv; eauto).
    destruct (iter_ok s2 _ I2) as (ys2 & s3 & Hi2 & _ & ((ds & Hp & Hd) & Hk)).
    exists ys2, s3. split; [exact Hi2 |]. split; [| exact Hk].
    rewrite (decodes_enc _ _ Hd). exact Hp.
  Qed.

End Facts.

(* ---------- the oracle instance of the extracted run meets the contract ---------- *)
Lemma leftmost_min_aux_ok (X : Type) (ltx : X -> X -> bool) (Hx : swo X ltx) :
  forall l m pre acc,
    Forall (fun y => ltx y m = false) pre -> Forall (fun y => ltx y m = false) acc ->
    Permutation (fst (leftmost_min_aux ltx m pre acc l) :: snd (leftmost_min_aux ltx m pre acc l))
                (m :: pre ++ acc ++ l) /\
    Forall (fun y => ltx y (fst (leftmost_min_aux ltx m pre acc l)) = false)
           (snd (leftmost_min_aux ltx m pre acc l)).
Proof.
  destruct Hx as (I & T & N).
  induction l as [| y r IH]; intros m pre acc Fp Fa; simpl.
  - split.
    + constructor. rewrite app_nil_r. apply Permutation_app; apply Permutation_sym, Permutation_rev.
    + apply Forall_app. split; apply Forall_rev; assumption.
  - destruct (ltx y m) eqn:Eym.
    + assert (Fy : forall z, ltx z m = false -> ltx z y = false).
      { intros z Hz. destruct (ltx z y) eqn:Ezy; [| reflexivity]. rewrite (T z y m Ezy Eym) in Hz. discriminate. }
      assert (Hmy : ltx m y = false).
      { destruct (ltx m y) eqn:E; [| reflexivity]. pose proof (T y m y Eym E) as C. rewrite I in C. discriminate. }
      destruct (IH y (acc ++ m :: pre) []) as (P & F).
      * apply Forall_app. split.
        -- eapply Forall_impl; [| exact Fa]. exact Fy.
        -- constructor; [exact Hmy |]. eapply Forall_impl; [| exact Fp]. exact Fy.
      * constructor.
      * split; [| exact F]. eapply Permutation_trans; [exact P |]. simpl.
        apply Permutation_sym.
        eapply Permutation_trans.
        { apply perm_skip. rewrite app_assoc. apply Permutation_sym. apply Permutation_middle. }
        eapply Permutation_trans; [apply perm_swap |]. apply perm_skip.
        change (m :: (pre ++ acc) ++ r) with ((m :: pre ++ acc) ++ r). apply Permutation_app_tail.
        eapply Permutation_trans; [| apply Permutation_middle]. apply perm_skip. apply Permutation_app_comm.
    + destruct (IH m pre (y :: acc) Fp (Forall_cons _ Eym Fa)) as (P & F).
      split; [| exact F]. eapply Permutation_trans; [exact P |]. apply perm_skip. apply Permutation_app_head.
      simpl. apply Permutation_middle.
Qed.

Lemma leftmost_min_contract : pick_contract leftmost_min.
Proof.
  intros X ltx l Hx Hne. destruct l as [| x r]; [congruence |].
  destruct (leftmost_min_aux_ok X ltx Hx r x [] [] (Forall_nil _) (Forall_nil _)) as (P & F).
  exists (fst (leftmost_min_aux ltx x [] [] r)), (snd (leftmost_min_aux ltx x [] [] r)).
  simpl. split; [rewrite <- surjective_pairing; reflexivity |]. split; [exact P | exact F].
Qed.

Lemma Zltb_swo : swo Z Z.ltb.
Proof.
  repeat split; intros.
  - apply Z.ltb_irrefl.
  - apply Z.ltb_lt in H, H0. apply Z.ltb_lt. lia.
  - apply Z.ltb_ge in H, H0. apply Z.ltb_ge. lia.
Qed.
