(* FileIOTheorems.v - the statements of C02 derived from round_trip_core:
   recognised layouts (typed values come back equal), scheme-less column sets
   (names and texts come back), scheme-less sessions without records. *)
From MafVerif Require Import lib.Base lib.Str model.RecordOps model.Validation model.Header
  model.RecordParse model.Reader model.WriterMode model.FileIO
  proofs.RecordFacts proofs.HeaderSpec proofs.HeaderRoundTrip proofs.ReaderModes proofs.ReaderTotal
  proofs.FileIOText proofs.FileIORecord proofs.FileIOWrite proofs.FileIORead proofs.FileIORows
  proofs.FileIORoundTrip.

Lemma assoc_in_gen {V} (d : list (str * V)) k v : assoc k d = Some v -> In (k, v) d.
Proof.
  induction d as [|[k' v'] d IH]; cbn [assoc]; [discriminate|].
  destruct (str_eqb k k') eqn:E.
  - apply str_eqb_eq in E. subst. intros H. injection H as ->. now left.
  - intros H. right. auto.
Qed.

(* ---------- the no-restrictions scheme of any names ---------- *)
Section NoRestrAny.
  Context {C : Type}.
  Notation cls := (cls C).

  Lemma fold_dset_plain (names : list str) : forall (d : list (str * cls)),
    Forall (fun kv => snd kv = CPlain) d ->
    Forall (fun kv => snd kv = CPlain) (fold_left (fun d n => dset n CPlain d) names d).
  Proof.
    induction names as [|n names IH]; intros d H; [exact H|]. cbn [fold_left]. apply IH.
    clear IH. induction d as [|[k v] d IHd]; cbn [dset]; [repeat constructor|].
    inversion H; subst. destruct (str_eqb n k); constructor; auto.
  Qed.

  Lemma norestr_class (names : list str) n k : s_class (@no_restrictions C names) n = Some k -> k = CPlain.
  Proof.
    unfold s_class, no_restrictions. cbn [s_cols]. intros H. apply assoc_in_gen in H.
    pose proof (fold_dset_plain names [] (Forall_nil _)) as F. rewrite Forall_forall in F.
    exact (F _ H).
  Qed.

  Lemma fold_dset_keys (names : list str) : forall (d : list (str * cls)) x,
    In x (map fst (fold_left (fun d n => dset n CPlain d) names d)) -> In x (map fst d) \/ In x names.
  Proof.
    induction names as [|n names IH]; intros d x H; [now left|]. cbn [fold_left] in H.
    apply IH in H as [H|H]; [|right; now right].
    apply keys_dset_gen in H as [->|H]; [right; now left|now left].
  Qed.

  Lemma fold_dset_head (names : list str) : forall (d : list (str * cls)) k v,
    hd [] (map fst (fold_left (fun d n => dset n CPlain d) names ((k, v) :: d))) = k.
  Proof.
    induction names as [|n names IH]; intros d k v; [reflexivity|]. cbn [fold_left dset].
    destruct (str_eqb n k) eqn:E; [apply str_eqb_eq in E; subst n|]; apply IH.
  Qed.

  Lemma fold_dset_nonempty (ns : list str) : forall (d : list (str * cls)),
    d <> [] -> fold_left (fun d n => dset n CPlain d) ns d <> [].
  Proof.
    induction ns as [|n ns IH]; intros d Hd; [exact Hd|]. cbn [fold_left]. apply IH.
    destruct d as [|[k v] d]; [congruence|]. cbn [dset]. destruct (str_eqb n k); discriminate.
  Qed.

  Lemma norestr_carriable (names : list str) : carriable names -> carriable (s_names (@no_restrictions C names)).
  Proof.
    intros (Hne & Hsep & Hh). destruct names as [|n0 names]; [congruence|].
    unfold s_names, no_restrictions. cbn [s_cols fold_left dset].
    pose proof (fold_dset_head names [] n0 CPlain) as Hhd.
    pose proof (fold_dset_nonempty names [(n0, CPlain)] ltac:(discriminate)) as Hnn.
    repeat split.
    - intros E. apply map_eq_nil in E. contradiction.
    - apply Forall_forall. intros x Hx. apply fold_dset_keys in Hx as [Hx|Hx].
      + cbn [map fst In] in Hx. destruct Hx as [<-|[]]. inversion Hsep; assumption.
      + rewrite Forall_forall in Hsep. apply Hsep. now right.
    - rewrite Hhd. exact Hh.
  Qed.

  Lemma norestr_truthy (names : list str) : names <> [] -> s_truthy (@no_restrictions C names) = true.
  Proof.
    intros Hne. destruct names as [|n0 names]; [congruence|].
    unfold s_truthy, no_restrictions. cbn [s_cols fold_left dset].
    pose proof (fold_dset_nonempty names [(n0, CPlain)] ltac:(discriminate)) as Hnn.
    destruct (fold_left _ names [(n0, CPlain)]); [congruence|reflexivity].
  Qed.
End NoRestrAny.

Section Theorems.
  Context {C W : Type}.
  Variable sem : colsem C W.
  Notation cls := (cls C).
  Notation scheme := (scheme cls).
  Notation mrec := (mrec C W).
  Notation payload := (payload C W).
  Notation pvalue := (pvalue C W).
  Variable registry : list scheme.
  Context {K : Type}.
  Variable key_of : sorder -> list str -> rec payload -> res K.
  Variable key_lt : K -> K -> bool.

  Hypothesis isinst_plain : cs_isinst sem CPlain CPlain = true.
  Variable value_hazard : C -> W -> bool.
  Hypothesis record_fixpoint : forall k t w t',
    cs_build sem k t = Some w -> cs_invalid sem k w = false ->
    cs_str sem k w = Some t' -> has_sep t' = false -> value_hazard k w = false ->
    cs_build sem k t' = Some w.

  Notation write_file := (write_file sem registry).
  Notation round_trip_of := (round_trip_of sem registry key_of key_lt).
  Notation typed_by := (typed_by sem value_hazard).
  Notation cells_of_rec := (@cells_of_rec C W).
  Notation reread_view := (reread_view sem).
  Notation in_declared_order := (in_declared_order key_of key_lt).

  Lemma cells_of_canon (cells : list (str * pvalue)) : cells_of_rec (canon_rec cells) = cells.
  Proof. unfold FileIORows.cells_of_rec, canon_rec, rec_of. cbn [rlist]. now rewrite somes_map_Some, cell_of_canon. Qed.

  Lemma exact_reread_cells (s : scheme) cells :
    Forall (fun np => exact_cell sem value_hazard (s_class s (fst np)) (snd np)) cells ->
    reread_cells sem s cells = cells.
  Proof.
    intros H. unfold reread_cells. rewrite <- (map_id cells) at 2. apply map_ext_in. intros [n p] Hin.
    rewrite Forall_forall in H. specialize (H _ Hin). cbn [fst snd] in *.
    now rewrite (exact_reread_pv sem value_hazard s n p H).
  Qed.

  (* ---------- recognised layouts ---------- *)
  (* the records as the reader returns them hold, slot by slot, the columns
     the writer was given: same names, same positions, same classes, same typed
     values; they carry no validation error; they render to the text that was
     written; the header records are the same (so it prints the same pragma
     lines in the same order); the reader works with the layout itself (same
     column line); writing header and records again gives the same entries *)
  Theorem round_trip_layout hl m0 lg0 l0 (h : header) (s : scheme) m (rs : list mrec) (translate : bool) :
    header_from_lines registry hl m0 lg0 = (l0, Ok h) -> Forall no_crlf hl ->
    h_scheme registry (hrecs h) = Ok (Some s) ->
    s_truthy s = true -> carriable (s_names s) -> NoDup (s_names s) ->
    Forall (typed_by s) rs ->
    let w1 := write_file h (Some m) rs in
    wr_clean w1 = true ->
    in_declared_order (hrecs h) (map (fun v => reread_view s (mcols v)) (accepted_records w1)) ->
    let rt := round_trip_of h (Some m) rs translate in
    exists rd w2,
      run_init (rt_read rt) = Ok rd /\ run_end (rt_read rt) = EndStop /\
      hrecs (rd_header rd) = hrecs h /\ rd_scheme rd = Some s /\
      Forall2 (fun r' r => cells_of_rec (mcols r') = cells_of_rec (mcols r) /\ merrs r' = [])
              (run_recs (rt_read rt)) rs /\
      Forall2 (fun r' v => map (@slot_view C W) (rlist (mcols r')) = map (@slot_view C W) (rlist (mcols v)) /\
                           record_text sem r' = record_text sem v)
              (run_recs (rt_read rt)) (accepted_records w1) /\
      rt_second rt = Some w2 /\ wr_clean w2 = true /\ wr_text w2 = wr_text w1.
  Proof.
    intros Hh Hhl Hsch Ht Hcar ND Hty w1 Hclean Hord rt.
    assert (Hex : Forall (rereadable sem value_hazard s) rs).
    { eapply Forall_impl; [|exact Hty]. intros r. apply typed_by_rereadable. }
    destruct (round_trip_core sem registry key_of key_lt isinst_plain value_hazard record_fixpoint
                hl m0 lg0 l0 h (Some s) s m rs translate Hh Hhl Hsch (or_introl eq_refl) Ht Hcar ND Hex Hclean Hord)
      as (rd & w2 & H1 & H2 & H3 & H4 & H5 & H6 & H7 & H8 & H9).
    fold w1 in H5, H6, H9. fold rt in H1, H2, H5, H7.
    exists rd, w2. repeat (split; [assumption|]).
    (* every validated record holds exact cells, so the view is the record's own cells *)
    assert (Hview : Forall2 (fun r v => cells_of_rec (mcols r) = cells_of_rec (mcols v) /\
                                        map (@slot_view C W) (rlist (mcols v)) = map (@slot_view C W) (rlist (canon_rec (cells_of_rec (mcols v)))) /\
                                        reread_view s (mcols v) = canon_rec (cells_of_rec (mcols v)))
                            rs (accepted_records w1)).
    { clear - H6 Hty. induction H6 as [|r v rs' vs (Hc & Hs) _ IH]; [constructor|].
      inversion Hty as [|? ? Hr Hrest]; subst. constructor; [|now apply IH].
      split; [exact Hc|]. split; [exact Hs|]. unfold FileIORows.reread_view. f_equal.
      apply exact_reread_cells. unfold FileIORows.typed_by in Hr. now rewrite Hc in Hr. }
    split; [|split; [|split; [assumption|split; [assumption|]]]].
    - clear - H5 Hview. revert H5. generalize (run_recs (rt_read rt)). intros rrs H5.
      revert rrs H5. induction Hview as [|r v rs' vs (Hc & Hs & Hv) _ IH]; intros rrs H5;
        inversion H5 as [|r' ? rrs' ? (Hm & He & _) H5']; subst; constructor; [|now apply IH].
      split; [|exact He]. rewrite Hm, Hv, cells_of_canon. now symmetry.
    - clear - H5 Hview. revert H5. generalize (run_recs (rt_read rt)). intros rrs H5.
      revert rrs H5. induction Hview as [|r v rs' vs (Hc & Hs & Hv) _ IH]; intros rrs H5;
        inversion H5 as [|r' ? rrs' ? (Hm & He & Htx) H5']; subst; constructor; [|now apply IH].
      split; [|exact Htx]. now rewrite Hm, Hv, Hs.
    - unfold wr_text. now rewrite H9.
  Qed.

  (* ---------- scheme-less column sets ---------- *)
  (* the header names no recognised scheme: the first record's column names
     become the column line.  The writer accepting the first record implies
     the format can carry them (repaired writer: a first name starting with
     '#', a name containing TAB/CR/LF, or a record without columns is refused
     with ValueError); the reader settles on exactly those names, returns one record per
     record with the same names in the same order, each value being the text
     that was written, without validation errors; the second write gives the
     same entries *)
  Theorem round_trip_schemeless hl m0 lg0 l0 (h : header) m (r1 : mrec) (rest : list mrec) (translate : bool) :
    header_from_lines registry hl m0 lg0 = (l0, Ok h) -> Forall no_crlf hl ->
    h_scheme registry (hrecs h) = Ok None ->
    let s := no_restrictions (record_names r1) in
    let rs := r1 :: rest in
    let w1 := write_file h (Some m) rs in
    wr_clean w1 = true ->
    in_declared_order (hrecs h) (map (fun v => reread_view s (mcols v)) (accepted_records w1)) ->
    let rt := round_trip_of h (Some m) rs translate in
    exists rd w2,
      run_init (rt_read rt) = Ok rd /\ run_end (rt_read rt) = EndStop /\
      hrecs (rd_header rd) = hrecs h /\
      option_map (@s_names C) (rd_scheme rd) = Some (record_names r1) /\
      Forall2 (fun r' r => cells_of_rec (mcols r') = reread_cells sem s (cells_of_rec (mcols r)) /\ merrs r' = [])
              (run_recs (rt_read rt)) rs /\
      Forall2 (fun r' v => record_text sem r' = record_text sem v)
              (run_recs (rt_read rt)) (accepted_records w1) /\
      rt_second rt = Some w2 /\ wr_clean w2 = true /\ wr_text w2 = wr_text w1.
  Proof.
    intros Hh Hhl Hsch s rs w1 Hclean Hord rt.
    pose proof (clean_first_writable sem registry h m r1 rest Hsch Hclean) as Hw.
    pose proof (names_writable_carriable (record_names r1) Hw) as Hcar.
    assert (Ht : s_truthy s = true) by (apply norestr_truthy; destruct Hcar; assumption).
    assert (ND : NoDup (s_names s)) by apply no_restrictions_nodup.
    assert (Hcar' : carriable (s_names s)) by now apply norestr_carriable.
    assert (Hex : Forall (rereadable sem value_hazard s) rs).
    { apply Forall_forall. intros r _. unfold FileIORows.rereadable. apply Forall_forall. intros [n p] _.
      unfold rereadable_cell. cbn [fst snd]. destruct (s_class s n) as [[|c]|] eqn:E; try exact I.
      apply norestr_class in E. discriminate. }
    assert (Hfix : fixes_scheme sem None s m rs).
    { right. split; [reflexivity|]. exists r1, rest. split; [reflexivity|]. split; [reflexivity|]. split; [exact Hw|].
      exact (clean_first_validates sem registry h m r1 rest Hsch Hclean). }
    destruct (round_trip_core sem registry key_of key_lt isinst_plain value_hazard record_fixpoint
                hl m0 lg0 l0 h None s m rs translate Hh Hhl Hsch Hfix Ht Hcar' ND Hex Hclean Hord)
      as (rd & w2 & H1 & H2 & H3 & H4 & H5 & H6 & H7 & H8 & H9).
    fold w1 in H5, H6, H9. fold rt in H1, H2, H5, H7.
    exists rd, w2. repeat (split; [assumption|]).
    (* the names: the first record was accepted, so its names are distinct *)
    assert (Hnames : s_names s = record_names r1).
    { destruct (first_write sem registry h m None s rs Hsch Hfix Ht Hclean) as (l & vts & _ & HF & _ & _).
      destruct (rows_of_accepted sem isinst_plain value_hazard record_fixpoint s m rs vts Ht ND HF Hex)
        as (_ & _ & _ & _ & _ & Hfirst). now symmetry. }
    split; [rewrite H4; cbn [option_map]; now rewrite Hnames|].
    split; [|split; [|split; [assumption|split; [assumption|]]]].
    - clear - H5 H6. revert H5. generalize (run_recs (rt_read rt)). intros rrs H5.
      revert rrs H5. induction H6 as [|r v rs' vs (Hc & Hs) _ IH]; intros rrs H5;
        inversion H5 as [|r' ? rrs' ? (Hm & He & _) H5']; subst; constructor; [|now apply IH].
      split; [|exact He]. rewrite Hm. unfold FileIORows.reread_view. now rewrite cells_of_canon, Hc.
    - clear - H5. induction H5 as [|r' v rrs vs (_ & _ & Htx) _ IH]; constructor; assumption.
    - unfold wr_text. now rewrite H9.
  Qed.

  (* ... and column names the format cannot carry are refused: the scheme-less
     writer raises ValueError for the first record, having written nothing for
     it - the session is not clean, the file holds the pragma lines only *)
  Theorem uncarriable_names_refused (h : header) m (r1 : mrec) (rest : list mrec) lg w :
    writer_init registry h (Some m) = (lg, Ok w) -> h_scheme registry (hrecs h) = Ok None ->
    names_writable (record_names r1) = false ->
    writer_iadd sem w r1 = ([], w, Raise ValueError) /\
    wr_clean (write_file h (Some m) (r1 :: rest)) = false.
  Proof.
    intros EI Hs Hw. destruct (writer_init_ok registry h m lg w EI) as (sch' & Hs' & _ & Ew).
    rewrite Hs in Hs'. injection Hs' as <-.
    assert (Hsch : w_scheme w = None) by (rewrite Ew; reflexivity).
    split; [exact (iadd_refused sem w r1 Hsch Hw)|].
    unfold wr_clean, FileIO.write_file. rewrite EI. cbn [writer_adds].
    rewrite (iadd_refused sem w r1 Hsch Hw). destruct (writer_adds sem w rest) as [os w']. reflexivity.
  Qed.

  (* ---------- a scheme-less session without records ---------- *)
  (* nothing but the pragma lines is written (nothing at all for an empty
     header: no blank line); a Silent reader opens it, returns the same header
     records and no record; the second write gives the same entries *)
  Theorem round_trip_header_only hl m0 lg0 l0 (h : header) (translate : bool) :
    header_from_lines registry hl m0 lg0 = (l0, Ok h) -> Forall no_crlf hl ->
    h_scheme registry (hrecs h) = Ok None ->
    let w1 := write_file h (Some Silent) [] in
    let rt := round_trip_of h (Some Silent) [] translate in
    wr_clean w1 = true /\ wr_entries w1 = header_entries (hrecs h) /\
    exists rd w2,
      run_init (rt_read rt) = Ok rd /\ run_end (rt_read rt) = EndStop /\ run_recs (rt_read rt) = [] /\
      hrecs (rd_header rd) = hrecs h /\ rd_scheme rd = None /\
      rt_second rt = Some w2 /\ wr_clean w2 = true /\ wr_text w2 = wr_text w1.
  Proof.
    intros Hh Hhl Hsch w1 rt.
    set (recs := hrecs h) in *. set (verrs := validate_errs registry recs None).
    assert (Hw : forall h', hrecs h' = recs ->
                 write_file h' (Some Silent) [] =
                 {| wr_log := [] ++ []; wr_init := Ok verrs; wr_adds := []; wr_entries := header_entries recs ++ [];
                    wr_scheme := None |}).
    { intros h' E. unfold FileIO.write_file.
      rewrite (writer_init_fwd registry h' Silent None []); rewrite E; [|exact Hsch|apply process_silent].
      cbn [writer_adds]. rewrite mk_writer_out, E. reflexivity. }
    assert (E1 : w1 = {| wr_log := [] ++ []; wr_init := Ok verrs; wr_adds := []; wr_entries := header_entries recs ++ [];
                         wr_scheme := None |}) by (apply Hw; reflexivity).
    split; [rewrite E1; reflexivity|]. split; [rewrite E1; cbn [wr_entries]; apply app_nil_r|].
    pose proof (printed_lines_block registry hl m0 lg0 l0 h Hh Hhl) as Hblock.
    destruct (printed_lines_parse registry hl m0 lg0 l0 h Hh) as (sch' & Hsch' & Hcore).
    fold recs in Hsch', Hcore, Hblock. rewrite Hsch in Hsch'. injection Hsch' as <-. fold verrs in Hcore.
    assert (Hlines : (if translate then file_lines (wr_text w1) else lines_of (wr_text w1)) = header_print_lines recs).
    { rewrite E1. unfold wr_text. cbn [wr_entries].
      rewrite (written_lines recs [] translate); [apply app_nil_r| |constructor].
      eapply Forall_impl; [|exact Hblock]. cbv beta. tauto. }
    pose proof (plan_header_only registry recs verrs None Hblock Hcore Hsch) as P. cbv zeta in P.
    set (p := plan_of registry (header_print_lines recs) None) in *.
    destruct P as (P1 & P2 & P3 & P4 & P5).
    assert (Hinit : snd (reader_init registry (header_print_lines recs) (Some Silent) None) = Ok (mk_reader Silent p)).
    { apply (reader_init_ok registry _ Silent [] []); apply process_silent. }
    assert (Ert : rt_read rt = read_lines sem registry key_of key_lt (header_print_lines recs) (Some Silent)).
    { subst rt. unfold FileIO.round_trip_of. cbn [rt_read]. fold w1. unfold read_path, read_text.
      destruct translate; now rewrite <- Hlines. }
    assert (Erun : exists lg, read_lines sem registry key_of key_lt (header_print_lines recs) (Some Silent)
                   = {| run_log := lg; run_init := Ok (mk_reader Silent p); run_recs := []; run_end := EndStop;
                        run_errs := rd_errs (mk_reader Silent p) ++ [] |}).
    { unfold read_lines, read_run.
      destruct (reader_init registry (header_print_lines recs) (Some Silent) None) as [lg r].
      cbn [snd] in Hinit. subst r. rewrite reader_iterate_mk, P4. eexists. rewrite app_nil_r. reflexivity. }
    destruct Erun as [lg Erun].
    exists (mk_reader Silent p), (write_file (mk_header Silent recs verrs) (Some Silent) []).
    rewrite Ert, Erun. cbn [run_init run_end run_recs]. repeat (split; [reflexivity|]).
    unfold mk_reader. cbn [rd_header rd_scheme]. rewrite P1, P2, P3. cbn [mk_header hrecs].
    repeat (split; [reflexivity|]). split; [|split].
    - subst rt. unfold FileIO.round_trip_of. cbn [rt_second]. fold w1.
      assert (Ert2 : (if translate then read_path sem registry key_of key_lt (wr_text w1) (Some Silent)
                      else read_text sem registry key_of key_lt (wr_text w1) (Some Silent))
                     = read_lines sem registry key_of key_lt (header_print_lines recs) (Some Silent)).
      { unfold read_path, read_text. destruct translate; now rewrite <- Hlines. }
      rewrite Ert2, Erun. unfold rewrite. cbn [run_init run_recs]. unfold mk_reader. cbn [rd_header].
      now rewrite P1, P2.
    - rewrite (Hw (mk_header Silent recs verrs) eq_refl). reflexivity.
    - rewrite (Hw (mk_header Silent recs verrs) eq_refl), E1. reflexivity.
  Qed.
End Theorems.
