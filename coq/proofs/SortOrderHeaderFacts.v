(* SortOrderHeaderFacts.v - which sort order a header declares, read off its
   lines: the first line that yields a sort.order record, rebuilt with the first
   line that yields a contigs record. *)
From MafVerif Require Import lib.Base lib.Str lib.SortOrderLib model.SortOrder model.OrderCheck.

(* the first line that parses to a record with key k *)
Fixpoint first_rec (k : str) (lines : list str) : option hvalue :=
  match lines with
  | [] => None
  | l :: r =>
      match header_record l with
      | Some (k', v) => if str_eqb k k' then Some v else first_rec k r
      | None => first_rec k r
      end
  end.

(* what the header declares, by the documented reading *)
Definition declared (hl : list str) : sort_order :=
  match first_rec k_sort_order hl with
  | Some (HSort so) =>
      if is_coordinate (so_cls so) then
        match first_rec k_contigs hl with
        | Some (HContigs l) => so_make (so_cls so) (Some (map PStr l))
        | _ => so
        end
      else so
  | _ => so_make CUnsorted None
  end.

Lemma assoc_app1 {V} (k key : str) (v : V) h :
  assoc k (h ++ [(key, v)]) =
  match assoc k h with Some x => Some x | None => if str_eqb k key then Some v else None end.
Proof.
  induction h as [|[k' v'] h IH]; simpl; [reflexivity|].
  destruct (str_eqb k k'); [reflexivity|exact IH].
Qed.

Lemma assoc_fold k lines h :
  assoc k (fold_left header_add_line lines h) =
  match assoc k h with Some v => Some v | None => first_rec k lines end.
Proof.
  revert h; induction lines as [|l r IH]; intros h; simpl; [now destruct (assoc k h)|].
  rewrite IH. unfold header_add_line.
  destruct (header_record l) as [[key v]|]; [|reflexivity].
  destruct (assoc key h) eqn:E.
  - destruct (assoc k h) eqn:Ek; [reflexivity|].
    destruct (str_eqb k key) eqn:Eq; [|reflexivity].
    apply str_eqb_eq in Eq. subst. congruence.
  - rewrite assoc_app1. destruct (assoc k h); [reflexivity|].
    now destruct (str_eqb k key).
Qed.

Lemma assoc_dset_same {V} k (v : V) h : assoc k (dset k v h) = Some v.
Proof.
  induction h as [|[k' v'] h IH]; simpl; [now rewrite str_eqb_refl|].
  destruct (str_eqb k k') eqn:E; simpl; [now rewrite str_eqb_refl|]. now rewrite E.
Qed.

Lemma find_so_name c : find (fun c' => str_eqb (so_name c') (so_name c)) so_all = Some c.
Proof. destruct c; vm_compute; reflexivity. Qed.

Lemma so_record_name c ct :
  so_record (so_name c) ct =
  Ok (if contigs_truthy ct && is_coordinate c then so_make c ct else so_make c None).
Proof. unfold so_record. rewrite find_so_name. now destruct (contigs_truthy ct && is_coordinate c). Qed.

Lemma so_find_name c : so_find (so_name c) = Ok c.
Proof. unfold so_find. now rewrite find_so_name. Qed.

(* the record a line yields under the key sort.order / contigs *)
Lemma header_record_sort line v : header_record line = Some (k_sort_order, v) ->
  exists c, v = HSort (so_make c None).
Proof.
  unfold header_record. destruct (negb (startswith line [HASH])); [discriminate|].
  destruct (split1 SP (tl line)) as [key [v0|]]; [|discriminate].
  destruct key as [|k0 key']; [discriminate|].
  destruct (rstrip_ws v0) as [|x value'] eqn:Ev; [discriminate|].
  destruct (str_eqb (k0 :: key') k_version) eqn:E1.
  { intros H. assert (Hk : k0 :: key' = k_sort_order) by congruence. rewrite Hk in E1. vm_compute in E1. discriminate. }
  destruct (str_eqb (k0 :: key') k_annotation) eqn:E2.
  { intros H. assert (Hk : k0 :: key' = k_sort_order) by congruence. rewrite Hk in E2. vm_compute in E2. discriminate. }
  destruct (str_eqb (k0 :: key') k_sort_order) eqn:E3.
  - unfold so_record. destruct (find _ so_all) as [c|]; [|discriminate].
    cbn [contigs_truthy andb]. intros H. exists c. congruence.
  - destruct (str_eqb (k0 :: key') k_contigs); intros H; assert (Hk : k0 :: key' = k_sort_order) by congruence; rewrite Hk in E3; vm_compute in E3; discriminate.
Qed.

Lemma header_record_contigs line v : header_record line = Some (k_contigs, v) ->
  exists l, v = HContigs l /\ l <> [].
Proof.
  unfold header_record. destruct (negb (startswith line [HASH])); [discriminate|].
  destruct (split1 SP (tl line)) as [key [v0|]]; [|discriminate].
  destruct key as [|k0 key']; [discriminate|].
  destruct (rstrip_ws v0) as [|x value'] eqn:Ev; [discriminate|].
  destruct (str_eqb (k0 :: key') k_version) eqn:E1.
  { intros H. assert (Hk : k0 :: key' = k_contigs) by congruence. rewrite Hk in E1. vm_compute in E1. discriminate. }
  destruct (str_eqb (k0 :: key') k_annotation) eqn:E2.
  { intros H. assert (Hk : k0 :: key' = k_contigs) by congruence. rewrite Hk in E2. vm_compute in E2. discriminate. }
  destruct (str_eqb (k0 :: key') k_sort_order) eqn:E3.
  { destruct (so_record (x :: value') None); intros H; [|discriminate].
    assert (Hk : k0 :: key' = k_contigs) by congruence. rewrite Hk in E3. vm_compute in E3. discriminate. }
  destruct (str_eqb (k0 :: key') k_contigs) eqn:E4.
  - intros H. exists (split COMMA (x :: value')). split; [congruence|apply split_nonempty].
  - intros H. assert (Hk : k0 :: key' = k_contigs) by congruence. rewrite Hk in E4. vm_compute in E4. discriminate.
Qed.

Lemma first_rec_sort hl v : first_rec k_sort_order hl = Some v -> exists c, v = HSort (so_make c None).
Proof.
  induction hl as [|l r IH]; simpl; [discriminate|].
  destruct (header_record l) as [[k' v']|] eqn:E; [|exact IH].
  destruct (str_eqb k_sort_order k') eqn:Ek; [|exact IH].
  apply str_eqb_eq in Ek. subst k'. intros H. injection H as <-. eapply header_record_sort; eauto.
Qed.

Lemma first_rec_contigs hl v : first_rec k_contigs hl = Some v -> exists l, v = HContigs l /\ l <> [].
Proof.
  induction hl as [|l r IH]; simpl; [discriminate|].
  destruct (header_record l) as [[k' v']|] eqn:E; [|exact IH].
  destruct (str_eqb k_contigs k') eqn:Ek; [|exact IH].
  apply str_eqb_eq in Ek. subst k'. intros H. injection H as <-. eapply header_record_contigs; eauto.
Qed.

(* MafHeader.from_lines(...).sort_order() is the declared order *)
Lemma header_sort_order_declared hl : h_sort_order (header_from_lines hl) = declared hl.
Proof.
  unfold header_from_lines, declared.
  set (h := fold_left header_add_line hl []).
  assert (As : assoc k_sort_order h = first_rec k_sort_order hl) by (unfold h; now rewrite assoc_fold).
  assert (Ac : assoc k_contigs h = first_rec k_contigs hl) by (unfold h; now rewrite assoc_fold).
  assert (Hso : h_sort_order h = match first_rec k_sort_order hl with
                                 | Some (HSort so) => so | _ => so_make CUnsorted None end).
  { unfold h_sort_order. now rewrite As. }
  assert (Hct : h_contigs h = match first_rec k_contigs hl with
                              | Some (HContigs l) => Some l | _ => None end).
  { unfold h_contigs. now rewrite Ac. }
  rewrite Hct, Hso.
  destruct (first_rec k_sort_order hl) as [vs|] eqn:Es.
  - destruct (first_rec_sort hl vs Es) as [c ->].
    destruct (first_rec k_contigs hl) as [vc|] eqn:Ec.
    + destruct (first_rec_contigs hl vc Ec) as [l [-> Hl]].
      destruct l as [|x l]; [congruence|]. cbn [pv_contigs option_map map contigs_truthy so_cls so_make].
      destruct (is_coordinate c) eqn:Ic.
      * rewrite so_record_name. cbn [contigs_truthy]. rewrite Ic. cbn [andb].
        unfold h_sort_order. now rewrite assoc_dset_same.
      * unfold h_sort_order. now rewrite As.
    + cbn [pv_contigs option_map contigs_truthy]. unfold h_sort_order. rewrite As.
      now destruct (is_coordinate (so_cls (so_make c None))).
  - cbn [so_cls so_make is_coordinate].
    destruct (contigs_truthy _); unfold h_sort_order; now rewrite As.
Qed.

(* the key function the reader's checker uses *)
Lemma declared_sort_key hl :
  sort_key (declared hl) =
  match first_rec k_sort_order hl with
  | Some (HSort so) =>
      if is_coordinate (so_cls so) then
        Ok {| kf_bar := match so_cls so with CBarcodesAndCoordinate => true | _ => false end;
              kf_contigs := match first_rec k_contigs hl with
                            | Some (HContigs l) => map PStr l | _ => [] end |}
      else Raise NotImplementedError
  | _ => Raise NotImplementedError
  end.
Proof.
  unfold declared.
  destruct (first_rec k_sort_order hl) as [vs|] eqn:Es; [|reflexivity].
  destruct (first_rec_sort hl vs Es) as [c ->]. cbn [so_cls so_make].
  destruct c; cbn [is_coordinate]; try reflexivity;
    destruct (first_rec k_contigs hl) as [[ | l | ]|]; reflexivity.
Qed.
