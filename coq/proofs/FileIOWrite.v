(* FileIOWrite.v - a whole MafWriter session (C02): what the writer leaves in
   the file when it accepted every record, in both directions - from "the
   session was clean" to the entries written (first write), and from records
   known to be acceptable to a clean session with known entries (second
   write).  A scheme-less session is reduced to a session under the
   no-restrictions scheme its first record fixes. *)
From MafVerif Require Import lib.Base lib.Str model.RecordOps model.Validation model.Header
  model.RecordParse model.Reader model.WriterMode model.FileIO
  proofs.RecordFacts proofs.HeaderSpec proofs.ReaderModes proofs.ReaderTotal proofs.FileIOText
  proofs.FileIORecord.

Lemma NoDup_app_snoc {X} (l : list X) x : NoDup l -> ~ In x l -> NoDup (l ++ [x]).
Proof.
  intros ND Hx. induction l as [|y l IH]; cbn [app]; [constructor; [tauto|constructor]|].
  inversion ND as [|? ? Hy ND']; subst. constructor.
  - intros Hin. apply in_app_or in Hin as [Hin|[<-|[]]]; [tauto|]. apply Hx. now left.
  - apply IH; [assumption|]. intros Hin. apply Hx. now right.
Qed.

(* ---------- the no-restrictions scheme of distinct names ---------- *)
Section NoRestr.
  Context {C : Type}.
  Notation cls := (cls C).

  Lemma norestr_fold (names : list str) : forall (d : list (str * cls)),
    NoDup (map fst d ++ names) ->
    fold_left (fun d n => dset n CPlain d) names d = d ++ map (fun n => (n, CPlain)) names.
  Proof.
    induction names as [|n names IH]; intros d ND; cbn [fold_left map]; [now rewrite app_nil_r|].
    assert (Ha : assoc n d = None).
    { apply assoc_none_iff. intros Hin. apply NoDup_remove_2 in ND. apply ND. apply in_or_app. now left. }
    rewrite (dset_absent _ _ _ Ha), IH.
    - now rewrite <- app_assoc.
    - rewrite map_app. cbn [map fst]. now rewrite <- app_assoc.
  Qed.

  Lemma norestr_cols (names : list str) :
    NoDup names -> s_cols (@no_restrictions C names) = map (fun n => (n, CPlain)) names.
  Proof. intros ND. unfold no_restrictions. cbn [s_cols]. now rewrite norestr_fold. Qed.

  Lemma norestr_names (names : list str) : NoDup names -> s_names (@no_restrictions C names) = names.
  Proof.
    intros ND. unfold s_names. rewrite norestr_cols by assumption. rewrite map_map. cbn [fst]. apply map_id.
  Qed.

  (* the dict never holds more entries than names were put in; as many only
     when the names are distinct *)
  Lemma fold_dset_length (names : list str) : forall (d : list (str * cls)),
    (length (fold_left (fun d n => dset n CPlain d) names d) <= length d + length names)%nat.
  Proof.
    induction names as [|n names IH]; intros d; cbn [fold_left length]; [lia|].
    specialize (IH (dset n CPlain d)).
    assert (length (dset n CPlain d) <= S (length d))%nat.
    { clear. induction d as [|[k v] d IH]; cbn [dset length]; [lia|].
      destruct (str_eqb n k); cbn [length]; lia. }
    lia.
  Qed.

  Lemma dset_present_length (n : str) (d : list (str * cls)) :
    In n (map fst d) -> length (dset n CPlain d) = length d.
  Proof.
    induction d as [|[k v] d IH]; cbn [map fst In dset length]; [tauto|].
    destruct (str_eqb n k) eqn:E; [reflexivity|]. apply str_eqb_neq in E.
    intros [H|H]; [congruence|]. cbn [length]. now rewrite IH.
  Qed.

  Lemma fold_dset_full (names : list str) : forall (d : list (str * cls)),
    NoDup (map fst d) ->
    length (fold_left (fun d n => dset n CPlain d) names d) = (length d + length names)%nat ->
    NoDup (map fst d ++ names).
  Proof.
    induction names as [|n names IH]; intros d ND H; cbn [fold_left length] in H.
    - now rewrite app_nil_r.
    - destruct (in_dec (list_eq_dec N.eq_dec) n (map fst d)) as [Hin|Hnot].
      + pose proof (fold_dset_length names (dset n CPlain d)) as L.
        rewrite (dset_present_length n d Hin) in L. lia.
      + assert (Ha : assoc n d = None) by now apply assoc_none_iff.
        rewrite (dset_absent _ _ _ Ha) in H.
        specialize (IH (d ++ [(n, CPlain)])).
        rewrite map_app, app_length in IH. cbn [map fst length] in IH.
        rewrite <- app_assoc in IH. cbn [app] in IH. apply IH; [|lia].
        apply NoDup_app_snoc; assumption.
  Qed.
End NoRestr.


Section WriteSession.
  Context {C W : Type}.
  Variable sem : colsem C W.
  Notation cls := (cls C).
  Notation scheme := (scheme cls).
  Notation mrec := (mrec C W).
  Notation payload := (payload C W).
  Notation pvalue := (pvalue C W).
  Notation writer := (writer C).
  Variable registry : list scheme.

  (* `writer += r` under scheme s and stringency m returned the validated
     record v, found nothing to report, and wrote the line t *)
  Definition accepted (s : scheme) (m : mode) (r v : mrec) (t : str) : Prop :=
    exists lg, record_validate sem r (Some m) LgWriter true (Some s) = (lg, Ok v) /\
               merrs v = [] /\ record_text sem v = Ok t.

  Definition with_out (w : writer) (s : scheme) (out : list str) : writer :=
    {| w_header := w_header w; w_scheme := Some s; w_mode := w_mode w; w_out := out |}.

  Lemma iadd_with_scheme (w : writer) (s : scheme) (r : mrec) :
    w_scheme w = Some s -> s_truthy s = true ->
    writer_iadd sem w r =
    match record_validate sem r (Some (w_mode w)) LgWriter true (Some s) with
    | (lg, Raise e) => (lg, w, Raise e)
    | (lg, Ok v) =>
        match record_text sem v with
        | Raise e => (lg, with_out w s (w_out w), Raise e)
        | Ok t => (lg, with_out w s (w_out w ++ [t]), Ok v)
        end
    end.
  Proof.
    intros Hs Ht. unfold writer_iadd, scheme_missing, with_out. rewrite Hs, Ht. cbn [negb andb].
    cbn [w_header w_scheme w_mode w_out]. rewrite app_nil_r. reflexivity.
  Qed.

  (* [str(key) for key in record.keys()] *)
  Definition record_names (r : mrec) : list str :=
    map (fun o => match o with Some c => ckey c | None => N_NONE end) (rlist (mcols r)).

  (* the first `writer += r` of a scheme-less writer fixes the scheme, writes
     the column line, and then proceeds as a writer that has that scheme *)
  Lemma iadd_no_scheme (w : writer) (r : mrec) lg v :
    w_scheme w = None ->
    names_writable (record_names r) = true ->
    let s := no_restrictions (record_names r) in
    s_truthy s = true ->
    record_validate sem r (Some (w_mode w)) LgWriter true (Some s) = (lg, Ok v) ->
    writer_iadd sem w r = writer_iadd sem (with_out w s (w_out w ++ [join [TAB] (s_names s)])) r.
  Proof.
    intros Hs Hw s Ht Hv. rewrite (iadd_with_scheme (with_out w s _) s r eq_refl Ht).
    unfold writer_iadd, scheme_missing. rewrite Hs. fold (record_names r). fold s. rewrite Hw. cbn [negb andb].
    unfold with_out. cbn [w_header w_scheme w_mode w_out]. rewrite Hv. reflexivity.
  Qed.

  (* a first record that validation refuses leaves the scheme-less writer as it
     was: no scheme adopted, no column line written (repaired code) *)
  Lemma iadd_no_scheme_invalid (w : writer) (r : mrec) lg e :
    w_scheme w = None -> names_writable (record_names r) = true ->
    record_validate sem r (Some (w_mode w)) LgWriter true (Some (no_restrictions (record_names r))) = (lg, Raise e) ->
    writer_iadd sem w r = (lg, w, Raise e).
  Proof.
    intros Hs Hw Hv. unfold writer_iadd, scheme_missing. rewrite Hs. fold (record_names r). rewrite Hw. cbn [negb andb].
    cbn [w_mode]. now rewrite Hv.
  Qed.

  (* ... unless the format cannot carry the record's column names: the writer
     refuses with ValueError before anything is written (repaired code) *)
  Lemma iadd_refused (w : writer) (r : mrec) :
    w_scheme w = None -> names_writable (record_names r) = false ->
    writer_iadd sem w r = ([], w, Raise ValueError).
  Proof.
    intros Hs Hw. unfold writer_iadd, scheme_missing. rewrite Hs. fold (record_names r). now rewrite Hw.
  Qed.

  Lemma with_out_scheme w s out : w_scheme (with_out w s out) = Some s.
  Proof. reflexivity. Qed.

  (* ----- from a clean session to what was written ----- *)
  Lemma adds_inv (s : scheme) (m : mode) : forall rs (w : writer) os w',
    w_scheme w = Some s -> s_truthy s = true -> w_mode w = m ->
    writer_adds sem w rs = (os, w') -> forallb (@add_clean C W) os = true ->
    exists vts : list (mrec * str),
      Forall2 (fun r vt => accepted s m r (fst vt) (snd vt)) rs vts /\
      map snd os = map (fun vt => Ok (fst vt)) vts /\
      w_out w' = w_out w ++ map snd vts /\ w_scheme w' = Some s /\ w_header w' = w_header w.
  Proof.
    induction rs as [|r rs IH]; intros w os w' Hs Ht Hm H Hc; cbn [writer_adds] in H.
    - injection H as <- <-. exists []. repeat split; [constructor|now rewrite app_nil_r|assumption].
    - rewrite (iadd_with_scheme w s r Hs Ht) in H. rewrite Hm in H.
      destruct (record_validate sem r (Some m) LgWriter true (Some s)) as [lg [v|e]] eqn:EV.
      2:{ destruct (writer_adds sem _ rs) as [os1 w1]. injection H as <- <-. discriminate. }
      destruct (record_text sem v) as [t|e] eqn:ET.
      2:{ destruct (writer_adds sem _ rs) as [os1 w1]. injection H as <- <-. discriminate. }
      destruct (writer_adds sem (with_out w s (w_out w ++ [t])) rs) as [os1 w1] eqn:EA.
      injection H as <- <-. cbn [forallb add_clean snd] in Hc.
      destruct (merrs v) as [|e0 er] eqn:EM; [|discriminate]. cbn [andb] in Hc.
      destruct (IH (with_out w s (w_out w ++ [t])) os1 w1 (with_out_scheme w s _) Ht Hm EA Hc) as (vts & HF & Hos & Hout & Hsch & Hhd).
      exists ((v, t) :: vts). split; [|split; [|split; [|split]]].
      + constructor; [|exact HF]. exists lg. cbn [fst snd]. auto.
      + cbn [map snd fst]. now rewrite Hos.
      + rewrite Hout. cbn [with_out w_out map snd]. now rewrite <- app_assoc.
      + exact Hsch.
      + exact Hhd.
  Qed.

  (* ----- from acceptable records to a clean session ----- *)
  Lemma adds_fwd (s : scheme) (m : mode) : forall rs (vts : list (mrec * str)) (w : writer),
    w_scheme w = Some s -> s_truthy s = true -> w_mode w = m ->
    Forall2 (fun r vt => accepted s m r (fst vt) (snd vt)) rs vts ->
    exists os w', writer_adds sem w rs = (os, w') /\ forallb (@add_clean C W) os = true /\
      map snd os = map (fun vt => Ok (fst vt)) vts /\
      w_out w' = w_out w ++ map snd vts /\ w_scheme w' = Some s.
  Proof.
    induction rs as [|r rs IH]; intros vts w Hs Ht Hm HF; inversion HF as [|? [v t] ? vts' Ha HF']; subst.
    - exists [], w. cbn [writer_adds map]. rewrite app_nil_r. auto.
    - destruct Ha as (lg & EV & EM & ET). cbn [fst snd] in *.
      cbn [writer_adds]. rewrite (iadd_with_scheme w s r Hs Ht), EV, ET.
      destruct (IH vts' (with_out w s (w_out w ++ [t])) (with_out_scheme w s _) Ht eq_refl HF') as (os & w' & EA & Hc & Hos & Hout & Hsch).
      rewrite EA. eexists _, w'. split; [reflexivity|]. split; [|split; [|split]].
      + cbn [forallb add_clean snd]. rewrite EM. exact Hc.
      + cbn [map snd fst]. now rewrite Hos.
      + rewrite Hout. cbn [with_out w_out map snd]. now rewrite <- app_assoc.
      + exact Hsch.
  Qed.

  (* ----- MafWriter.__init__ ----- *)
  (* the header block and, under a scheme, the column line *)
  Definition header_entries (recs : list (str * hrec)) : list str :=
    if nonempty recs then [header_print recs] else [].
  Definition column_entries (sch : option scheme) : list str :=
    match sch with Some s => if s_truthy s then [join [TAB] (s_names s)] else [] | None => [] end.

  Lemma process_ok_logger m lg1 lg2 es l1 :
    process m lg1 es = (l1, Ok tt) -> exists l2, process m lg2 es = (l2, Ok tt).
  Proof.
    unfold process. destruct es as [|e0 es]; [eauto|]. destruct m; [discriminate| |]; eauto.
  Qed.

  Lemma writer_init_ok (h : header) (m : mode) lg (w : writer) :
    writer_init registry h (Some m) = (lg, Ok w) ->
    exists sch, h_scheme registry (hrecs h) = Ok sch /\
      (exists l, process m LgWriter (validate_errs registry (hrecs h) sch) = (l, Ok tt)) /\
      w = mk_writer h sch m tt (validate_errs registry (hrecs h) sch).
  Proof.
    destruct (writer_init_unfold registry h m) as (sch & E & U). rewrite U. unfold finish.
    intros H. exists sch. split; [exact E|].
    destruct (process m LgWriter (validate_errs registry (hrecs h) sch)) as [l [[]|e]] eqn:EP; [|discriminate].
    split; [eauto|]. cbn in H. now injection H as _ <-.
  Qed.

  Lemma writer_init_fwd (h : header) (m : mode) sch l :
    h_scheme registry (hrecs h) = Ok sch ->
    process m LgWriter (validate_errs registry (hrecs h) sch) = (l, Ok tt) ->
    writer_init registry h (Some m) = (l ++ [], Ok (mk_writer h sch m tt (validate_errs registry (hrecs h) sch))).
  Proof.
    intros E EP. destruct (writer_init_unfold registry h m) as (sch' & E' & U).
    rewrite E in E'. injection E' as <-. rewrite U. unfold finish. rewrite EP. reflexivity.
  Qed.

  Lemma mk_writer_out h sch m errs :
    w_out (mk_writer h sch m tt errs) = header_entries (hrecs h) ++ column_entries sch.
  Proof. reflexivity. Qed.
End WriteSession.
