(* RenderFacts.v - rendering a parsed column is a canonical fixpoint (C04, field level).
   Everything is stated on the column interpreter of model/Columns.v for a
   resolved class `r : rcls` and for ALL texts.  The class enters through a
   boolean classifier (`class_ok` / `class_strict_ok`) on its resolved shape
   (method chains, null dictionary, enum, element class); the regenerated
   tables enter only through such booleans, evaluated by vm_compute in
   RenderFacts2.v.  Host float()/uuid.UUID() are oracles with explicit laws. *)
From Coq Require Import String Ascii.
From MafVerif Require Import lib.Base lib.Str lib.PyInt gen.GenClasses gen.GenEnums model.Classes model.Columns
     proofs.ColumnFacts.
Open Scope string_scope.

(* ---------- oracle laws (hypotheses of the theorems, never axioms) ---------- *)
Record oracle_laws (O : oracles) : Prop := {
  f_rt : forall t r, fval O t = Some r -> fval O r = Some r;      (* repr(float) parses back to itself *)
  f_nil : fval O [] = None;                                       (* float('') raises *)
  f_int : forall t z, py_int t = Some z -> fval O t <> None;      (* every int literal is a float literal *)
  u_rt : forall t r, uval O t = Some r -> uval O r = Some r;      (* str(UUID) parses back to itself *)
  u_nil : uval O [] = None }.

(* ---------- statement vocabulary ---------- *)
(* the preferred null spelling: '' when '' is a null key, else the first key *)
Definition preferred_null (e : ecls) : str :=
  match e_null e with
  | Some d => match map fst d with
              | k :: _ => if existsb (fun x => str_eqb x []) (map fst d) then [] else k
              | [] => []
              end
  | None => []
  end.

(* a one-element list whose only element renders as the empty text *)
Definition single_empty (v : pyval) : bool :=
  match v with
  | VList [x] => match py_str x with Ok [] => true | _ => false end
  | _ => false
  end.

(* what C04 says about one accepted value of a column of class r *)
Definition fix_at (O : oracles) (r : rcls) (v : pyval) : Prop :=
  exists t', col_str r v = Ok t' /\ contains_sep t' = false /\ field_outcome O r t' = Valid v /\
             (in_null_values (r_self r) v = true -> t' = preferred_null (r_self r)).

(* ---------- inversion / introduction of field_outcome ---------- *)
Lemma field_outcome_valid_inv O r t v :
  field_outcome O r t = Valid v ->
  cls_build O r t = Ok v /\ cls_value_invalid r v = false /\ cls_text_has_sep r v = false.
Proof.
  unfold field_outcome. destruct (cls_build O r t) as [w|]; [|discriminate].
  destruct (cls_value_invalid r w) eqn:A1; [discriminate|].
  destruct (cls_text_has_sep r w) eqn:A2; [discriminate|]. intros H; injection H as <-. auto.
Qed.

Lemma field_outcome_valid_intro O r t v :
  cls_build O r t = Ok v -> cls_value_invalid r v = false -> cls_text_has_sep r v = false ->
  field_outcome O r t = Valid v.
Proof. intros H1 H2 H3. unfold field_outcome. now rewrite H1, H2, H3. Qed.

(* ---------- null dictionaries ---------- *)
Definition null_val_ok (v : pyval) : bool :=
  match v with VNone => true | VList [] => true | VEnum _ _ => true | _ => false end.

Lemma py_eq_null_eq a v : null_val_ok a = true -> py_eq a v = true -> a = v.
Proof.
  destruct a; simpl; try discriminate.
  - intros _. destruct v; simpl; try discriminate; auto.
  - intros _. destruct v; simpl; try discriminate. intros H.
    apply andb_true_iff in H as [H1 H2]. apply String.eqb_eq in H1. apply Nat.eqb_eq in H2. now subst.
  - destruct l; [|discriminate]. intros _. destruct v; simpl; try discriminate.
    destruct l; [auto|discriminate].
Qed.

Lemma py_eq_null_refl a : null_val_ok a = true -> py_eq a a = true.
Proof.
  destruct a; simpl; try discriminate; auto.
  - intros _. now rewrite String.eqb_refl, Nat.eqb_refl.
  - destruct l; [auto|discriminate].
Qed.

Definition nv_eqb (a b : pyval) : bool :=
  match a, b with
  | VNone, VNone => true
  | VList [], VList [] => true
  | VEnum e i, VEnum f j => String.eqb e f && Nat.eqb i j
  | _, _ => false
  end.
Lemma nv_eqb_eq a b : nv_eqb a b = true -> a = b.
Proof.
  destruct a, b; simpl; try discriminate; auto;
    repeat match goal with
    | |- context [match ?l with [] => _ | _ :: _ => _ end] => destruct l
    end; try discriminate; auto.
  intros H. apply andb_true_iff in H as [H1 H2]. apply String.eqb_eq in H1. apply Nat.eqb_eq in H2. now subst.
Qed.

(* every value is a null-like value, all values are the same, no key holds a separator *)
Definition null_dict_ok (d : list (str * pyval)) : bool :=
  match d with
  | [] => true
  | (_, v0) :: _ =>
      forallb (fun kv => null_val_ok (snd kv) && nv_eqb (snd kv) v0 && negb (contains_sep (fst kv))) d
  end.
Definition e_null_ok (e : ecls) : bool :=
  match e_null e with Some d => null_dict_ok d | None => true end.

Lemma null_dict_ok_in d kv :
  null_dict_ok d = true -> In kv d ->
  null_val_ok (snd kv) = true /\ contains_sep (fst kv) = false /\
  forall kv', In kv' d -> snd kv' = snd kv.
Proof.
  destruct d as [|[k0 v0] d']; [intros _ []|]. intros H Hin. cbn [null_dict_ok] in H.
  rewrite forallb_forall in H.
  pose proof (H _ Hin) as Hk. apply andb_true_iff in Hk as [Hk H3]. apply andb_true_iff in Hk as [H1 H2].
  split; [exact H1|]. split; [now apply negb_true_iff in H3|].
  intros kv' Hin'. pose proof (H _ Hin') as Hk'. apply andb_true_iff in Hk' as [Hk' _].
  apply andb_true_iff in Hk' as [_ H2']. apply nv_eqb_eq in H2, H2'. congruence.
Qed.

Lemma filter_all {X} (f : X -> bool) l : (forall x, In x l -> f x = true) -> filter f l = l.
Proof.
  induction l as [|x l IH]; simpl; intros H; [reflexivity|].
  rewrite (H x (or_introl eq_refl)). f_equal. apply IH. auto.
Qed.

Lemma filter_none {X} (f : X -> bool) l : existsb f l = false -> filter f l = [].
Proof.
  induction l as [|x l IH]; simpl; [reflexivity|]. intros H. apply orb_false_iff in H as [H1 H2].
  rewrite H1. auto.
Qed.

Lemma assoc_of_key {V} (d : list (str * V)) k :
  In k (map fst d) -> exists w, assoc k d = Some w /\ In (k, w) d.
Proof.
  induction d as [|[k' v] d IH]; simpl; [intros []|]. intros H.
  destruct (str_eqb k k') eqn:E.
  - apply str_eqb_eq in E. subst. eauto.
  - destruct H as [H|H]; [subst; now rewrite str_eqb_refl in E|].
    destruct (IH H) as (w & Hw & Hin). eauto.
Qed.

Lemma assoc_some_in {V} (d : list (str * V)) k w : assoc k d = Some w -> In (k, w) d.
Proof.
  induction d as [|[k' v] d IH]; simpl; [discriminate|].
  destruct (str_eqb k k') eqn:E.
  - apply str_eqb_eq in E. intros H; injection H as <-. subst. now left.
  - intros H. right. auto.
Qed.

Lemma assoc_none_not_key {V} (d : list (str * V)) k :
  (forall kv, In kv d -> fst kv <> k) -> assoc k d = None.
Proof.
  induction d as [|[k' v] d IH]; simpl; [reflexivity|]. intros H.
  destruct (str_eqb k k') eqn:E.
  - apply str_eqb_eq in E. subst. exfalso. apply (H (k', v)); auto.
  - apply IH. intros kv Hin. apply H. now right.
Qed.

Lemma preferred_null_is_key e d :
  e_null e = Some d -> d <> [] -> In (preferred_null e) (map fst d).
Proof.
  intros Hn Hd. unfold preferred_null. rewrite Hn.
  destruct d as [|[k0 v0] d']; [congruence|]. cbn [map fst].
  destruct (existsb (fun x => str_eqb x []) (k0 :: map fst d')) eqn:E; [|now left].
  apply existsb_exists in E as (x & Hin & Hx). apply str_eqb_eq in Hx. now subst.
Qed.

(* Case A: a null value renders as the preferred null spelling, which parses back to it *)
Lemma null_value_fix O r v :
  e_custom (r_self r) = true -> e_null_ok (r_self r) = true -> in_null_values (r_self r) v = true ->
  col_str r v = Ok (preferred_null (r_self r)) /\ contains_sep (preferred_null (r_self r)) = false /\
  field_outcome O r (preferred_null (r_self r)) = Valid v.
Proof.
  intros Hc Hok Hin. unfold e_null_ok in Hok. unfold in_null_values in Hin.
  destruct (e_null (r_self r)) as [d|] eqn:Hn; [|discriminate].
  apply existsb_exists in Hin as (kv & Hkv & Heq).
  destruct (null_dict_ok_in d kv Hok Hkv) as (Hv & _ & Hall).
  pose proof (py_eq_null_eq _ _ Hv Heq) as Hvv.
  assert (Hd : d <> []) by (destruct d; [destruct Hkv|discriminate]).
  pose proof (preferred_null_is_key _ _ Hn Hd) as Hkey.
  assert (Hstr : col_str r v = Ok (preferred_null (r_self r))).
  { unfold col_str, ecls_str, preferred_null. rewrite Hn.
    rewrite filter_all.
    - destruct (map fst d) as [|k ks] eqn:Em; [destruct d; [congruence|discriminate]|].
      destruct (existsb (fun x => str_eqb x []) (k :: ks)); reflexivity.
    - intros x Hx. cbv beta. rewrite (Hall x Hx), Hvv. apply py_eq_null_refl. now rewrite <- Hvv. }
  destruct (assoc_of_key d _ Hkey) as (w & Hw & Hinw).
  assert (w = v) by (rewrite <- Hvv; apply (Hall _ Hinw)). subst w.
  assert (Hsep : contains_sep (preferred_null (r_self r)) = false)
    by (apply (null_dict_ok_in d _ Hok Hinw)).
  split; [exact Hstr|]. split; [exact Hsep|].
  apply field_outcome_valid_intro.
  - unfold cls_build. now rewrite Hc, Hn, Hw.
  - unfold cls_value_invalid. rewrite Hc. unfold in_null_values. rewrite Hn.
    replace (existsb (fun kv0 => py_eq (snd kv0) v) d) with true; [reflexivity|].
    symmetry. apply existsb_exists. exists kv. auto.
  - unfold cls_text_has_sep. now rewrite Hstr.
Qed.

(* ---------- the raw layer: texts that are not null keys ---------- *)
Definition not_null_key (e : ecls) (t : str) : Prop :=
  forall d, e_null e = Some d -> assoc t d = None.

Definition raw_fix (O : oracles) (r : rcls) (P : pyval -> Prop) : Prop :=
  forall t v, cls_build_raw O r t = Ok v -> cls_validate_raw r v = false ->
    in_null_values (r_self r) v = false -> P v -> not_null_key (r_self r) t ->
    exists t', eval_string_it (e_string_it (r_self r)) v = Ok t' /\
      (contains_sep t' = false -> not_null_key (r_self r) t' /\ cls_build_raw O r t' = Ok v).

Lemma raw_fix_weaken O r (P Q : pyval -> Prop) : (forall v, Q v -> P v) -> raw_fix O r P -> raw_fix O r Q.
Proof. intros HPQ H t v H1 H2 H3 H4 H5. apply (H t v); auto. Qed.

Lemma build_not_key O r t v :
  e_custom (r_self r) = true -> not_null_key (r_self r) t -> cls_build_raw O r t = Ok v -> cls_build O r t = Ok v.
Proof.
  intros Hc Hk Hb. unfold cls_build. rewrite Hc.
  destruct (e_null (r_self r)) as [d|] eqn:Hn; [|exact Hb]. now rewrite (Hk d Hn).
Qed.

(* a custom class: Case A from the dictionary, Case B from the raw layer *)
Theorem custom_fix O r (P : pyval -> Prop) :
  e_custom (r_self r) = true -> e_null_ok (r_self r) = true -> raw_fix O r P ->
  forall t v, field_outcome O r t = Valid v -> P v -> fix_at O r v.
Proof.
  intros Hc Hok Hraw t v Hval HP.
  destruct (in_null_values (r_self r) v) eqn:Hin.
  - destruct (null_value_fix O r v Hc Hok Hin) as (H1 & H2 & H3).
    exists (preferred_null (r_self r)). auto.
  - apply field_outcome_valid_inv in Hval as (Hb & Hinv & Hsep).
    (* the value came from __build__, not from the dictionary *)
    assert (Hbr : cls_build_raw O r t = Ok v /\ not_null_key (r_self r) t).
    { unfold cls_build in Hb. rewrite Hc in Hb. unfold not_null_key.
      destruct (e_null (r_self r)) as [d|] eqn:Hn; [|split; [exact Hb|discriminate]].
      destruct (assoc t d) as [w|] eqn:Ha.
      - exfalso. injection Hb as ->. apply assoc_some_in in Ha.
        unfold e_null_ok in Hok. rewrite Hn in Hok.
        destruct (null_dict_ok_in d _ Hok Ha) as (Hv & _ & _). simpl in Hv.
        unfold in_null_values in Hin. rewrite Hn in Hin.
        assert (existsb (fun kv => py_eq (snd kv) v) d = true); [|congruence].
        apply existsb_exists. exists (t, v). split; [exact Ha|]. now apply py_eq_null_refl.
      - split; [exact Hb|]. intros d' Hd'. injection Hd' as <-. exact Ha. }
    destruct Hbr as [Hbr Hnk].
    assert (Hvr : cls_validate_raw r v = false).
    { unfold cls_value_invalid in Hinv. now rewrite Hc, Hin in Hinv. }
    destruct (Hraw t v Hbr Hvr Hin HP Hnk) as (t' & Hs & Hrest).
    assert (Hstr : col_str r v = Ok t').
    { unfold col_str, ecls_str. unfold in_null_values in Hin.
      destruct (e_null (r_self r)) as [d|]; [|exact Hs].
      now rewrite (filter_none _ _ Hin). }
    assert (Hsep' : contains_sep t' = false).
    { unfold cls_text_has_sep in Hsep. now rewrite Hstr in Hsep. }
    destruct (Hrest Hsep') as [Hnk' Hb'].
    exists t'. split; [exact Hstr|]. split; [exact Hsep'|]. split; [|congruence].
    apply field_outcome_valid_intro; auto. now apply build_not_key.
Qed.

(* a plain MafColumnRecord (no scheme class, or a class outside the custom hierarchy) *)
Definition hd_is (l : list string) (s : string) : bool :=
  match l with h :: _ => String.eqb h s | [] => false end.
Lemma hd_is_eq l s : hd_is l s = true -> exists rest, l = s :: rest.
Proof. destruct l as [|h rest]; simpl; [discriminate|]. intros H. apply String.eqb_eq in H. subst. eauto. Qed.

Lemma esi_mcr sup v : eval_string_it ("MafColumnRecord" :: sup) v = py_str v.
Proof. reflexivity. Qed.
Lemma esi_enum sup v :
  eval_string_it ("EnumColumn" :: sup) v = match v with VEnum e i => Ok (enum_value e i) | _ => Raise TypeError end.
Proof. reflexivity. Qed.
Lemma esi_seq sup v :
  eval_string_it ("SequenceOfValuesColumn" :: sup) v =
  match v with
  | VList l | VTuple l => match map_res py_str l with Ok ps => Ok (join [SEMI] ps) | Raise x => Raise x end
  | VStr s => Ok (join [SEMI] (map (fun c => [c]) s))
  | _ => Raise TypeError
  end.
Proof. reflexivity. Qed.
Lemma esi_canon sup v : eval_string_it ("Canonical" :: sup) v = Ok (if truthy v then s2l "YES" else []).
Proof. reflexivity. Qed.

Theorem plain_fix O r :
  e_custom (r_self r) = false -> e_null (r_self r) = None -> hd_is (e_string_it (r_self r)) "MafColumnRecord" = true ->
  forall t v, field_outcome O r t = Valid v -> fix_at O r v.
Proof.
  intros Hc Hn Hs t v Hval. apply hd_is_eq in Hs as [rest Hs].
  pose proof Hval as Hval0.
  apply field_outcome_valid_inv in Hval as (Hb & Hinv & Hsep).
  unfold cls_build in Hb. rewrite Hc in Hb. injection Hb as <-.
  assert (Hstr : col_str r (VStr t) = Ok t).
  { unfold col_str, ecls_str. rewrite Hn, Hs. reflexivity. }
  exists t. split; [exact Hstr|]. split.
  - unfold cls_text_has_sep in Hsep. now rewrite Hstr in Hsep.
  - split; [exact Hval0|]. unfold in_null_values. rewrite Hn. discriminate.
Qed.

(* ---------- one equation per __build__ body (closed class names compute) ---------- *)
Section BuildEquations.
  Variables (O : oracles) (en : option string) (sq : str -> res pyval) (sup : list string) (t : str).
  Lemma eb_str : eval_build O en sq ("_BuildStringColumn" :: sup) t = Ok (VStr t).
  Proof. reflexivity. Qed.
  Lemma eb_int : eval_build O en sq ("IntegerColumn" :: sup) t = build_int t.
  Proof. reflexivity. Qed.
  Lemma eb_strand : eval_build O en sq ("TranscriptStrand" :: sup) t = build_int t.
  Proof. reflexivity. Qed.
  Lemma eb_entrez :
    eval_build O en sq ("EntrezGeneId" :: sup) t =
    match eval_build O en sq sup t with
    | Ok v => if py_eq v (VInt 0) then Ok VNone else Ok v
    | Raise x => Raise x
    end.
  Proof. reflexivity. Qed.
  Lemma eb_float :
    eval_build O en sq ("FloatColumn" :: sup) t = match fval O t with Some r => Ok (VFloat r) | None => Raise ValueError end.
  Proof. reflexivity. Qed.
  Lemma eb_uuid :
    eval_build O en sq ("UUIDColumn" :: sup) t = match uval O t with Some u => Ok (VUuid u) | None => Raise ValueError end.
  Proof. reflexivity. Qed.
  Lemma eb_enum :
    eval_build O en sq ("EnumColumn" :: sup) t = match en with Some e => enum_lookup e t | None => Raise TypeError end.
  Proof. reflexivity. Qed.
  Lemma eb_seq : eval_build O en sq ("SequenceOfValuesColumn" :: sup) t = sq t.
  Proof. reflexivity. Qed.
  Lemma eb_canon :
    eval_build O en sq ("Canonical" :: sup) t =
    if str_eqb (upper_a t) [] then Ok (VBool false)
    else if str_eqb (upper_a t) (s2l "YES") then Ok (VBool true) else Raise ValueError.
  Proof. reflexivity. Qed.
  Lemma eb_bool :
    eval_build O en sq ("BooleanColumn" :: sup) t =
    if str_eqb (upper_a t) (s2l "TRUE") then Ok (VBool true)
    else if str_eqb (upper_a t) (s2l "FALSE") then Ok (VBool false) else Raise ValueError.
  Proof. reflexivity. Qed.
  Lemma eb_strorint :
    eval_build O en sq ("StringOrIntegerColumn" :: sup) t =
    match py_int t with Some z => Ok (VInt z) | None => Ok (VStr t) end.
  Proof. reflexivity. Qed.
  Lemma eb_strintfloat :
    eval_build O en sq ("StringIntegerOrFloatColumn" :: sup) t =
    match fval O t with
    | Some r => Ok (VFloat r)
    | None => match py_int t with Some z => Ok (VInt z) | None => Ok (VStr t) end
    end.
  Proof. reflexivity. Qed.
  Lemma eb_cap1 : eval_build O en sq ("NullableYesOrNo" :: sup) t = eval_build O en sq sup (capitalize_a t).
  Proof. reflexivity. Qed.
  Lemma eb_cap2 : eval_build O en sq ("NullableYOrN" :: sup) t = eval_build O en sq sup (capitalize_a t).
  Proof. reflexivity. Qed.
  Lemma eb_cap3 : eval_build O en sq ("PickColumn" :: sup) t = eval_build O en sq sup (capitalize_a t).
  Proof. reflexivity. Qed.
  Lemma eb_ynu : eval_build O en sq ("YesNoOrUnknown" :: sup) t = eval_build O en sq sup t.
  Proof. reflexivity. Qed.
End BuildEquations.

(* ---------- keys of the null dictionary ---------- *)
Definition keys_all (p : str -> bool) (e : ecls) : bool :=
  match e_null e with Some d => forallb (fun kv => p (fst kv)) d | None => true end.

Lemma keys_all_not_key p e t : keys_all p e = true -> p t = false -> not_null_key e t.
Proof.
  intros H Hp d Hd. unfold keys_all in H. rewrite Hd in H. rewrite forallb_forall in H.
  apply assoc_none_not_key. intros kv Hin E. specialize (H _ Hin). rewrite E in H. congruence.
Qed.

Lemma contains_sep_false_in t c : contains_sep t = false -> In c t -> c <> TAB /\ c <> CR /\ c <> LF.
Proof.
  unfold contains_sep. intros H Hin.
  assert (Hc : (N.eqb c TAB || N.eqb c CR || N.eqb c LF) = false).
  { destruct (N.eqb c TAB || N.eqb c CR || N.eqb c LF) eqn:E; [|reflexivity].
    assert (existsb (fun c => N.eqb c TAB || N.eqb c CR || N.eqb c LF) t = true); [|congruence].
    apply existsb_exists. eauto. }
  apply orb_false_iff in Hc as [Hc H3]. apply orb_false_iff in Hc as [H1 H2].
  apply N.eqb_neq in H1, H2, H3. auto.
Qed.

(* ---------- kinds of raw layers (by head of the method chains) ---------- *)
Definition k_rnv (e : ecls) : bool := hd_is (e_validate e) "RequireNullValue".

Definition mcr_str (e : ecls) : bool := hd_is (e_string_it e) "MafColumnRecord".

Definition k_str (e : ecls) : bool := hd_is (e_build e) "_BuildStringColumn" && mcr_str e.

Definition int_head (l : list string) : bool := hd_is l "IntegerColumn" || hd_is l "TranscriptStrand".
Definition k_int (e : ecls) : bool :=
  int_head (e_build e) && mcr_str e && keys_all (fun k => is_none (py_int k)) e.

Definition k_entrez (e : ecls) : bool :=
  match e_build e with
  | a :: sup => String.eqb a "EntrezGeneId" && int_head sup
  | [] => false
  end && mcr_str e && in_null_values e VNone
  && keys_all (fun k => match py_int k with None => true | Some z => Z.eqb z 0 end) e.

Definition k_float (e : ecls) : bool :=
  hd_is (e_build e) "FloatColumn" && mcr_str e && keys_all (fun k => str_eqb k []) e.
Definition k_uuid (e : ecls) : bool :=
  hd_is (e_build e) "UUIDColumn" && mcr_str e && keys_all (fun k => str_eqb k []) e.
Definition k_canon (e : ecls) : bool :=
  hd_is (e_build e) "Canonical" && hd_is (e_string_it e) "Canonical" && is_none (e_null e).
Definition k_bool (e : ecls) : bool :=
  hd_is (e_build e) "BooleanColumn" && mcr_str e && is_none (e_null e).
Definition k_strorint (e : ecls) : bool :=
  hd_is (e_build e) "StringOrIntegerColumn" && mcr_str e && keys_all (fun k => is_none (py_int k)) e.
Definition k_strintfloat (e : ecls) : bool :=
  hd_is (e_build e) "StringIntegerOrFloatColumn" && mcr_str e && is_none (e_null e).

Ltac split_andb H :=
  repeat match type of H with
         | _ && _ = true => let H' := fresh H in apply andb_true_iff in H as [H H']
         end.

Section Kinds.
  Variable O : oracles.
  Hypothesis HO : oracle_laws O.

  Lemma none_not_key e t : e_null e = None -> not_null_key e t.
  Proof. intros H d Hd. congruence. Qed.

  Lemma is_none_eq {X} (o : option X) : is_none o = true -> o = None.
  Proof. destruct o; [discriminate|reflexivity]. Qed.

  (* RequireNullValue first in the MRO: nothing but null values validates *)
  Lemma rnv_raw r P : k_rnv (r_self r) = true -> raw_fix O r P.
  Proof.
    intros H t v _ Hv. exfalso. unfold k_rnv in H. apply hd_is_eq in H as [rest H].
    unfold cls_validate_raw in Hv. rewrite H in Hv. cbn in Hv. discriminate.
  Qed.

  Lemma str_raw r P : k_str (r_self r) = true -> raw_fix O r P.
  Proof.
    intros H t v Hb _ _ _ Hk. unfold k_str, mcr_str in H. split_andb H.
    apply hd_is_eq in H as [sup H]. apply hd_is_eq in H0 as [sup' H0].
    unfold cls_build_raw in *. rewrite H in *. rewrite eb_str in Hb. injection Hb as <-.
    exists t. rewrite H0, esi_mcr. split; [reflexivity|]. intros _. split; [exact Hk|]. now rewrite eb_str.
  Qed.

  Lemma int_head_build en sq l t : int_head l = true -> eval_build O en sq l t = build_int t.
  Proof.
    unfold int_head. intros H. apply orb_true_iff in H as [H|H]; apply hd_is_eq in H as [sup ->].
    - apply eb_int.
    - apply eb_strand.
  Qed.

  Lemma build_int_inv t v : build_int t = Ok v -> exists z, v = VInt z /\ py_int t = Some z.
  Proof. unfold build_int. destruct (py_int t) as [z|]; [|discriminate]. intros H; injection H as <-. eauto. Qed.

  Lemma build_int_render z : build_int (render_int z) = Ok (VInt z).
  Proof. unfold build_int. now rewrite py_int_render. Qed.

  Lemma int_raw r P : k_int (r_self r) = true -> raw_fix O r P.
  Proof.
    intros H t v Hb _ _ _ _. unfold k_int, mcr_str in H. split_andb H.
    apply hd_is_eq in H1 as [sup' H1].
    unfold cls_build_raw in *. rewrite (int_head_build _ _ _ _ H) in Hb.
    apply build_int_inv in Hb as (z & -> & Hp).
    exists (render_int z). rewrite H1, esi_mcr. split; [reflexivity|]. intros _. split.
    - apply (keys_all_not_key _ _ _ H0). now rewrite py_int_render.
    - rewrite (int_head_build _ _ _ _ H). apply build_int_render.
  Qed.

  Lemma entrez_raw r P : k_entrez (r_self r) = true -> raw_fix O r P.
  Proof.
    intros H t v Hb _ Hnn _ _. unfold k_entrez, mcr_str in H. split_andb H.
    destruct (e_build (r_self r)) as [|a sup] eqn:Eb; [discriminate|]. split_andb H.
    apply String.eqb_eq in H. subst a. apply hd_is_eq in H2 as [sup' H2].
    unfold cls_build_raw in *. rewrite Eb in *. rewrite eb_entrez, (int_head_build _ _ _ _ H3) in Hb.
    destruct (build_int t) as [w|] eqn:Hbi; [|discriminate].
    apply build_int_inv in Hbi as (z & -> & Hp). simpl in Hb.
    destruct (Z.eqb z 0) eqn:Hz; injection Hb as <-; [congruence|].
    exists (render_int z). rewrite H2, esi_mcr. split; [reflexivity|]. intros _. split.
    - apply (keys_all_not_key _ _ _ H0). rewrite py_int_render. exact Hz.
    - rewrite eb_entrez, (int_head_build _ _ _ _ H3), build_int_render. simpl. now rewrite Hz.
  Qed.

  Lemma float_raw r P : k_float (r_self r) = true -> raw_fix O r P.
  Proof.
    intros H t v Hb _ _ _ _. unfold k_float, mcr_str in H. split_andb H.
    apply hd_is_eq in H as [sup H]. apply hd_is_eq in H1 as [sup' H1].
    unfold cls_build_raw in *. rewrite H in *. rewrite eb_float in Hb.
    destruct (fval O t) as [x|] eqn:Hf; [|discriminate]. injection Hb as <-.
    pose proof (f_rt O HO _ _ Hf) as Hrt.
    exists x. rewrite H1, esi_mcr. split; [reflexivity|]. intros _. split.
    - apply (keys_all_not_key _ _ _ H0). apply str_eqb_neq. intros ->. rewrite (f_nil O HO) in Hrt. discriminate.
    - now rewrite eb_float, Hrt.
  Qed.

  Lemma uuid_raw r P : k_uuid (r_self r) = true -> raw_fix O r P.
  Proof.
    intros H t v Hb _ _ _ _. unfold k_uuid, mcr_str in H. split_andb H.
    apply hd_is_eq in H as [sup H]. apply hd_is_eq in H1 as [sup' H1].
    unfold cls_build_raw in *. rewrite H in *. rewrite eb_uuid in Hb.
    destruct (uval O t) as [x|] eqn:Hf; [|discriminate]. injection Hb as <-.
    pose proof (u_rt O HO _ _ Hf) as Hrt.
    exists x. rewrite H1, esi_mcr. split; [reflexivity|]. intros _. split.
    - apply (keys_all_not_key _ _ _ H0). apply str_eqb_neq. intros ->. rewrite (u_nil O HO) in Hrt. discriminate.
    - now rewrite eb_uuid, Hrt.
  Qed.

  Lemma canon_raw r P : k_canon (r_self r) = true -> raw_fix O r P.
  Proof.
    intros H t v Hb _ _ _ _. unfold k_canon in H. split_andb H.
    apply hd_is_eq in H as [sup H]. apply hd_is_eq in H1 as [sup' H1]. apply is_none_eq in H0.
    unfold cls_build_raw in *. rewrite H in *. rewrite eb_canon in Hb.
    assert (Hv : exists b, v = VBool b).
    { destruct (str_eqb (upper_a t) []); [injection Hb as <-; eauto|].
      destruct (str_eqb (upper_a t) (s2l "YES")); [injection Hb as <-; eauto|discriminate]. }
    destruct Hv as [b ->]. rewrite H1, esi_canon.
    exists (if b then s2l "YES" else []). split; [reflexivity|]. intros _. split; [now apply none_not_key|].
    rewrite eb_canon. destruct b; reflexivity.
  Qed.

  Lemma bool_raw r P : k_bool (r_self r) = true -> raw_fix O r P.
  Proof.
    intros H t v Hb _ _ _ _. unfold k_bool, mcr_str in H. split_andb H.
    apply hd_is_eq in H as [sup H]. apply hd_is_eq in H1 as [sup' H1]. apply is_none_eq in H0.
    unfold cls_build_raw in *. rewrite H in *. rewrite eb_bool in Hb.
    assert (Hv : exists b, v = VBool b).
    { destruct (str_eqb (upper_a t) (s2l "TRUE")); [injection Hb as <-; eauto|].
      destruct (str_eqb (upper_a t) (s2l "FALSE")); [injection Hb as <-; eauto|discriminate]. }
    destruct Hv as [b ->]. rewrite H1, esi_mcr.
    exists (if b then s2l "True" else s2l "False"). split; [destruct b; reflexivity|]. intros _.
    split; [now apply none_not_key|]. rewrite eb_bool. destruct b; reflexivity.
  Qed.

  Lemma strorint_raw r P : k_strorint (r_self r) = true -> raw_fix O r P.
  Proof.
    intros H t v Hb _ _ _ Hk. unfold k_strorint, mcr_str in H. split_andb H.
    apply hd_is_eq in H as [sup H]. apply hd_is_eq in H1 as [sup' H1].
    unfold cls_build_raw in *. rewrite H in *. rewrite eb_strorint in Hb.
    destruct (py_int t) as [z|] eqn:Hp; injection Hb as <-; rewrite H1, esi_mcr.
    - exists (render_int z). split; [reflexivity|]. intros _. split.
      + apply (keys_all_not_key _ _ _ H0). now rewrite py_int_render.
      + now rewrite eb_strorint, py_int_render.
    - exists t. split; [reflexivity|]. intros _. split; [exact Hk|]. now rewrite eb_strorint, Hp.
  Qed.

  Lemma strintfloat_raw r P : k_strintfloat (r_self r) = true -> raw_fix O r P.
  Proof.
    intros H t v Hb _ _ _ Hk. unfold k_strintfloat, mcr_str in H. split_andb H.
    apply hd_is_eq in H as [sup H]. apply hd_is_eq in H1 as [sup' H1]. apply is_none_eq in H0.
    unfold cls_build_raw in *. rewrite H in *. rewrite eb_strintfloat in Hb.
    destruct (fval O t) as [x|] eqn:Hf.
    - injection Hb as <-. pose proof (f_rt O HO _ _ Hf) as Hrt. rewrite H1, esi_mcr.
      exists x. split; [reflexivity|]. intros _. split; [now apply none_not_key|].
      now rewrite eb_strintfloat, Hrt.
    - destruct (py_int t) as [z|] eqn:Hp.
      + exfalso. now apply (f_int O HO _ _ Hp).
      + injection Hb as <-. rewrite H1, esi_mcr. exists t. split; [reflexivity|]. intros _.
        split; [exact Hk|]. now rewrite eb_strintfloat, Hf, Hp.
  Qed.
End Kinds.

(* ---------- enumerations: general part (member table never unfolded) ---------- *)
Lemma find_index_lt {X} (p : X -> bool) l : forall st i, find_index p l st = Some i -> (st <= i < st + length l)%nat.
Proof.
  induction l as [|x l IH]; intros st i H; simpl in H; [discriminate|].
  destruct (p x); [injection H as <-; simpl; lia|]. apply IH in H. simpl. lia.
Qed.

Lemma enum_lookup_inv en t v :
  enum_lookup en t = Ok v -> exists i, v = VEnum en i /\ (i < length (enum_members en))%nat.
Proof.
  unfold enum_lookup.
  destruct (find_index (fun m => str_eqb (s2l (snd m)) t) (enum_members en) 0) as [i|] eqn:E1.
  - intros H; injection H as <-. apply find_index_lt in E1. exists i. split; [reflexivity|lia].
  - destruct (find_index (fun m => str_eqb (s2l (fst m)) t) (enum_members en) 0) as [i|] eqn:E2; [|discriminate].
    intros H; injection H as <-. apply find_index_lt in E2. exists i. split; [reflexivity|lia].
Qed.

Definition cap_cls (c : string) : bool :=
  String.eqb c "NullableYesOrNo" || String.eqb c "NullableYOrN" || String.eqb c "PickColumn".

(* chains  (NullableYesOrNo | NullableYOrN | PickColumn | YesNoOrUnknown)* EnumColumn ... *)
Fixpoint enum_chain (ch : list string) : bool :=
  match ch with
  | [] => false
  | c :: sup =>
      if String.eqb c "EnumColumn" then true
      else if cap_cls c || String.eqb c "YesNoOrUnknown" then enum_chain sup else false
  end.

Lemma enum_chain_step (en : option string) c sup t :
  String.eqb c "EnumColumn" = false -> cap_cls c || String.eqb c "YesNoOrUnknown" = true ->
  exists t2, forall O' sq', eval_build O' en sq' (c :: sup) t = eval_build O' en sq' sup t2.
Proof.
  intros _ H. apply orb_true_iff in H as [H|H].
  - unfold cap_cls in H. apply orb_true_iff in H as [H|H]; [apply orb_true_iff in H as [H|H]|];
      apply String.eqb_eq in H; subst c; exists (capitalize_a t); intros; reflexivity.
  - apply String.eqb_eq in H; subst c. exists t. intros; reflexivity.
Qed.

Lemma enum_chain_indep en ch : enum_chain ch = true ->
  forall O sq O' sq' t, eval_build O (Some en) sq ch t = eval_build O' (Some en) sq' ch t.
Proof.
  induction ch as [|c sup IH]; intros H O sq O' sq' t; [discriminate|]. cbn [enum_chain] in H.
  destruct (String.eqb c "EnumColumn") eqn:E.
  - apply String.eqb_eq in E. subst c. now rewrite !eb_enum.
  - destruct (cap_cls c || String.eqb c "YesNoOrUnknown") eqn:E2; [|discriminate].
    destruct (enum_chain_step (Some en) c sup t E E2) as [t2 Ht2].
    rewrite (Ht2 O sq), (Ht2 O' sq'). now apply IH.
Qed.

Lemma enum_chain_build en ch : enum_chain ch = true ->
  forall O sq t v, eval_build O (Some en) sq ch t = Ok v ->
  exists i, v = VEnum en i /\ (i < length (enum_members en))%nat.
Proof.
  induction ch as [|c sup IH]; intros H O sq t v Hb; [discriminate|]. cbn [enum_chain] in H.
  destruct (String.eqb c "EnumColumn") eqn:E.
  - apply String.eqb_eq in E. subst c. rewrite eb_enum in Hb. now apply (enum_lookup_inv en t v).
  - destruct (cap_cls c || String.eqb c "YesNoOrUnknown") eqn:E2; [|discriminate].
    destruct (enum_chain_step (Some en) c sup t E E2) as [t2 Ht2].
    rewrite (Ht2 O sq) in Hb. now apply (IH H O sq t2 v).
Qed.

(* a dummy oracle for the sweeps (enum chains never consult it) *)
Definition O0 : oracles := {| fval := fun _ => None; uval := fun _ => None |}.

Definition res_is_member (x : res pyval) (en : string) (i : nat) : bool :=
  match x with Ok (VEnum e j) => String.eqb e en && Nat.eqb j i | _ => false end.
Lemma res_is_member_eq x en i : res_is_member x en i = true -> x = Ok (VEnum en i).
Proof.
  destruct x as [v|]; [|discriminate]. destruct v; try discriminate. simpl. intros H.
  apply andb_true_iff in H as [H1 H2]. apply String.eqb_eq in H1. apply Nat.eqb_eq in H2. now subst.
Qed.

(* the finite obligation per member: a non-null member's value text is not a
   null key and builds that very member again (this is where @unique, the
   capitalising __build__ overrides and the dictionary keys meet) *)
Definition enum_member_ok (e : ecls) (en : string) (i : nat) : bool :=
  in_null_values e (VEnum en i) ||
  (match e_null e with Some d => is_none (assoc (enum_value en i) d) | None => true end
   && res_is_member (eval_build O0 (Some en) no_seq (e_build e) (enum_value en i)) en i).

Definition enum_sweep (e : ecls) (en : string) : bool :=
  forallb (enum_member_ok e en) (seq 0 (length (enum_members en))).

Definition k_enum (e : ecls) : bool :=
  enum_chain (e_build e) && hd_is (e_string_it e) "EnumColumn"
  && match e_enum e with Some en => enum_sweep e en | None => false end.

Lemma enum_raw O r P : k_enum (r_self r) = true -> raw_fix O r P.
Proof.
  intros H t v Hb _ Hnn _ _. unfold k_enum in H. split_andb H.
  destruct (e_enum (r_self r)) as [en|] eqn:Een; [|discriminate].
  apply hd_is_eq in H1 as [sup' H1].
  unfold cls_build_raw in *. rewrite Een in *.
  destruct (enum_chain_build en _ H _ _ _ _ Hb) as (i & -> & Hi).
  unfold enum_sweep in H0. rewrite forallb_forall in H0.
  assert (Hin : In i (seq 0 (length (enum_members en)))) by (apply in_seq; lia).
  specialize (H0 _ Hin). unfold enum_member_ok in H0. rewrite Hnn in H0. cbn [orb] in H0.
  apply andb_true_iff in H0 as [Hk Hrb]. apply res_is_member_eq in Hrb.
  exists (enum_value en i). rewrite H1, esi_enum. split; [reflexivity|]. intros _. split.
  - intros d Hd. rewrite Hd in Hk. destruct (assoc (enum_value en i) d); [discriminate|reflexivity].
  - rewrite <- Hrb. now apply enum_chain_indep.
Qed.

(* ---------- sequences ---------- *)
Definition no_semi (p : str) : bool := negb (existsb (N.eqb SEMI) p).
Lemma no_semi_not_in p : no_semi p = true -> ~ In SEMI p.
Proof.
  unfold no_semi. intros H Hin. apply negb_true_iff in H.
  assert (existsb (N.eqb SEMI) p = true); [|congruence].
  apply existsb_exists. exists SEMI. split; [exact Hin|apply N.eqb_refl].
Qed.

(* what a sequence column needs from its element class: a valid element's
   str() is free of ';' and builds the same element again *)
Definition elem_fix (O : oracles) (el : ecls) : Prop :=
  forall tx x, eval_build O (e_enum el) no_seq (e_build el) tx = Ok x ->
    (exists s, ecls_str el x = Ok s /\ no_semi s = true) ->
    exists p, py_str x = Ok p /\ no_semi p = true /\ eval_build O (e_enum el) no_seq (e_build el) p = Ok x.

Definition ke_str (el : ecls) : bool :=
  hd_is (e_build el) "_BuildStringColumn" && mcr_str el && is_none (e_null el).
Definition ke_int (el : ecls) : bool := int_head (e_build el).
Definition enum_elem_member_ok (el : ecls) (en : string) (i : nat) : bool :=
  no_semi (enum_value en i)
  && res_is_member (eval_build O0 (Some en) no_seq (e_build el) (enum_value en i)) en i.
Definition ke_enum (el : ecls) : bool :=
  enum_chain (e_build el)
  && match e_enum el with
     | Some en => forallb (enum_elem_member_ok el en) (seq 0 (length (enum_members en)))
     | None => false
     end.
Definition elem_ok (el : ecls) : bool := ke_str el || ke_int el || ke_enum el.

Lemma no_semi_int z : no_semi (render_int z) = true.
Proof.
  unfold no_semi. apply negb_true_iff. apply not_true_is_false. intros H.
  apply existsb_exists in H as (c & Hin & Hc). apply N.eqb_eq in Hc. subst c.
  pose proof (render_int_chars z) as HF. rewrite forallb_forall in HF. specialize (HF _ Hin). discriminate.
Qed.

Lemma elem_ok_fix O el : elem_ok el = true -> elem_fix O el.
Proof.
  intros H tx x Hb (s & Hs & Hns). unfold elem_ok in H.
  apply orb_true_iff in H as [H|H]; [apply orb_true_iff in H as [H|H]|].
  - unfold ke_str, mcr_str in H. split_andb H.
    apply hd_is_eq in H as [sup H]. apply hd_is_eq in H1 as [sup' H1]. apply is_none_eq in H0.
    rewrite H in *. rewrite eb_str in Hb. injection Hb as <-.
    unfold ecls_str in Hs. rewrite H0, H1, esi_mcr in Hs. simpl in Hs. injection Hs as <-.
    exists tx. split; [reflexivity|]. split; [exact Hns|]. now rewrite eb_str.
  - unfold ke_int in H. rewrite (int_head_build O _ _ _ _ H) in Hb.
    apply build_int_inv in Hb as (z & -> & Hp).
    exists (render_int z). split; [reflexivity|]. split; [apply no_semi_int|].
    rewrite (int_head_build O _ _ _ _ H). apply build_int_render.
  - unfold ke_enum in H. split_andb H.
    destruct (e_enum el) as [en|] eqn:Een; [|discriminate].
    destruct (enum_chain_build en _ H _ _ _ _ Hb) as (i & -> & Hi).
    rewrite forallb_forall in H0.
    assert (Hin : In i (seq 0 (length (enum_members en)))) by (apply in_seq; lia).
    specialize (H0 _ Hin). unfold enum_elem_member_ok in H0. apply andb_true_iff in H0 as [Hn Hrb].
    apply res_is_member_eq in Hrb.
    exists (enum_value en i). split; [reflexivity|]. split; [exact Hn|].
    rewrite <- Hrb. now apply enum_chain_indep.
Qed.

Lemma map_res_length {X Y} (f : X -> res Y) l ys : map_res f l = Ok ys -> length ys = length l.
Proof.
  revert ys; induction l as [|x l IH]; intros ys H; simpl in H; [injection H as <-; reflexivity|].
  destruct (f x); [|discriminate]. destruct (map_res f l) eqn:E; [|discriminate].
  injection H as <-. simpl. f_equal. now apply IH.
Qed.

Lemma map_res_elems O el : elem_fix O el ->
  forall ts vs, map_res (eval_build O (e_enum el) no_seq (e_build el)) ts = Ok vs ->
    (forall x, In x vs -> exists s, ecls_str el x = Ok s /\ no_semi s = true) ->
    exists ps, map_res py_str vs = Ok ps /\ Forall (fun p => ~ In SEMI p) ps /\ length ps = length vs /\
               map_res (eval_build O (e_enum el) no_seq (e_build el)) ps = Ok vs.
Proof.
  intros Hel. induction ts as [|tx ts IH]; intros vs H Hall; simpl in H.
  - injection H as <-. exists []. simpl. auto.
  - destruct (eval_build O (e_enum el) no_seq (e_build el) tx) as [x|] eqn:Ex; [|discriminate].
    destruct (map_res (eval_build O (e_enum el) no_seq (e_build el)) ts) as [vs'|] eqn:Er; [|discriminate].
    injection H as <-.
    destruct (Hel tx x Ex (Hall x (or_introl eq_refl))) as (p & Hp & Hnp & Hbp).
    destruct (IH vs' eq_refl (fun y Hy => Hall y (or_intror Hy))) as (ps & H1 & H2 & H3 & H4).
    exists (p :: ps). simpl. rewrite Hp, H1, Hbp, H4. repeat split; auto.
    constructor; [now apply no_semi_not_in|exact H2].
Qed.

Lemma join_nil_single c ps : ps <> [] -> join [c] ps = [] -> ps = [[]].
Proof.
  destruct ps as [|p [|q ps]]; [congruence| |]; simpl; intros _ H.
  - now subst.
  - destruct p; discriminate.
Qed.

Lemma ev_seq e seqv sup v : eval_validate e seqv ("SequenceOfValuesColumn" :: sup) v = seqv v.
Proof. reflexivity. Qed.

Definition k_seq (r : rcls) : bool :=
  hd_is (e_build (r_self r)) "SequenceOfValuesColumn" && hd_is (e_string_it (r_self r)) "SequenceOfValuesColumn"
  && hd_is (e_validate (r_self r)) "SequenceOfValuesColumn"
  && keys_all (fun k => str_eqb k []) (r_self r)
  && match r_elem r with Some el => elem_ok el | None => false end.

Lemma seq_raw O r : k_seq r = true -> raw_fix O r (fun v => single_empty v = false).
Proof.
  intros H t v Hb Hv _ Hse _. unfold k_seq in H. split_andb H.
  apply hd_is_eq in H as [sup H]. apply hd_is_eq in H3 as [sup' H3]. apply hd_is_eq in H2 as [sup'' H2].
  destruct (r_elem r) as [el|] eqn:Eel; [|discriminate].
  pose proof (elem_ok_fix O el H0) as Hel.
  unfold cls_build_raw in *. rewrite H, Eel in *. rewrite eb_seq in Hb.
  destruct (map_res (eval_build O (e_enum el) no_seq (e_build el)) (split SEMI t)) as [vs|] eqn:Em; [|discriminate].
  injection Hb as <-.
  unfold cls_validate_raw in Hv. rewrite H2, Eel, ev_seq in Hv.
  assert (Hall : forall x, In x vs -> exists s, ecls_str el x = Ok s /\ no_semi s = true).
  { intros x Hx. destruct (ecls_str el x) as [s|] eqn:Es.
    - exists s. split; [reflexivity|]. unfold no_semi. apply negb_true_iff.
      destruct (existsb (N.eqb SEMI) s) eqn:E; [|reflexivity].
      assert (existsb (fun x0 => if eval_validate el no_seqv (e_validate el) x0 then true
                                 else match ecls_str el x0 with Ok t0 => existsb (N.eqb SEMI) t0 | Raise _ => true end) vs = true);
        [|congruence].
      apply existsb_exists. exists x. split; [exact Hx|]. rewrite Es, E. now destruct (eval_validate _ _ _ x).
    - assert (existsb (fun x0 => if eval_validate el no_seqv (e_validate el) x0 then true
                                 else match ecls_str el x0 with Ok t0 => existsb (N.eqb SEMI) t0 | Raise _ => true end) vs = true);
        [|congruence].
      apply existsb_exists. exists x. split; [exact Hx|]. rewrite Es. now destruct (eval_validate _ _ _ x). }
  destruct (map_res_elems O el Hel _ _ Em Hall) as (ps & Hps & Hns & Hlen & Hrb).
  exists (join [SEMI] ps). rewrite H3, esi_seq, Hps. split; [reflexivity|]. intros _.
  assert (Hne : ps <> []).
  { intros ->. simpl in Hlen. apply map_res_length in Em. rewrite <- Hlen in Em.
    pose proof (split_nonempty SEMI t). destruct (split SEMI t); [congruence|discriminate]. }
  split.
  - apply (keys_all_not_key _ _ _ H1). apply str_eqb_neq. intros Hj.
    apply join_nil_single in Hj; [|exact Hne]. subst ps.
    destruct vs as [|x [|y vs]]; try discriminate. simpl in Hps.
    destruct (py_str x) as [p|] eqn:Ep; [|discriminate]. injection Hps as ->.
    simpl in Hse. rewrite Ep in Hse. discriminate.
  - rewrite eb_seq, split_join by assumption. now rewrite Hrb.
Qed.

(* element classes whose valid elements never render as '' : then a
   one-element list can never collide with the list's null key '' *)
Definition elem_nonempty (el : ecls) : bool :=
  (ke_str el && hd_is (e_validate el) "StringColumn")
  || ke_int el
  || (ke_enum el && match e_enum el with
                    | Some en => forallb (fun i => negb (str_eqb (enum_value en i) [])) (seq 0 (length (enum_members en)))
                    | None => false
                    end).

Definition k_seq_strict (r : rcls) : bool :=
  k_seq r && match r_elem r with Some el => elem_nonempty el | None => false end.

Lemma ev_stringcolumn e seqv sup v :
  eval_validate e seqv ("StringColumn" :: sup) v = if eval_validate e seqv sup v then true else negb (truthy v).
Proof. reflexivity. Qed.

Lemma seq_strict_raw O r P : k_seq_strict r = true -> raw_fix O r P.
Proof.
  intros H. unfold k_seq_strict in H. apply andb_true_iff in H as [Hk Hne].
  pose proof (seq_raw O r Hk) as Hraw.
  intros t v Hb Hv Hnn HP Hnk. apply (Hraw t v Hb Hv Hnn); [|exact Hnk].
  (* a valid built list is never a singleton of an element rendering '' *)
  unfold k_seq in Hk. split_andb Hk.
  apply hd_is_eq in Hk as [sup Hk]. apply hd_is_eq in Hk2 as [sup'' Hk2].
  destruct (r_elem r) as [el|] eqn:Eel; [|discriminate].
  unfold cls_build_raw in Hb. rewrite Hk, Eel, eb_seq in Hb.
  destruct (map_res (eval_build O (e_enum el) no_seq (e_build el)) (split SEMI t)) as [vs|] eqn:Em; [|discriminate].
  injection Hb as <-.
  destruct vs as [|x [|y vs]]; try reflexivity.
  destruct (split SEMI t) as [|tx [|ty ts]] eqn:Esp; simpl in Em; try discriminate.
  2:{ destruct (eval_build O (e_enum el) no_seq (e_build el) tx); [|discriminate].
      destruct (eval_build O (e_enum el) no_seq (e_build el) ty); [|discriminate].
      destruct (map_res _ ts); discriminate. }
  destruct (eval_build O (e_enum el) no_seq (e_build el) tx) as [x'|] eqn:Ex; [|discriminate].
  injection Em as ->.
  unfold cls_validate_raw in Hv. rewrite Hk2, Eel, ev_seq in Hv. cbn [existsb] in Hv.
  rewrite orb_false_r in Hv.
  destruct (eval_validate el no_seqv (e_validate el) x) eqn:Evx; [discriminate|].
  unfold single_empty.
  apply orb_true_iff in Hne as [Hne|Hne]; [apply orb_true_iff in Hne as [Hne|Hne]|].
  - apply andb_true_iff in Hne as [Hs Hsc]. unfold ke_str in Hs. split_andb Hs.
    apply hd_is_eq in Hs as [s1 Hs]. apply hd_is_eq in Hsc as [s2 Hsc].
    rewrite Hs, eb_str in Ex. injection Ex as <-.
    rewrite Hsc, ev_stringcolumn in Evx.
    destruct (eval_validate el no_seqv s2 (VStr tx)); [discriminate|].
    simpl in Evx. simpl. destruct tx; [discriminate|reflexivity].
  - unfold ke_int in Hne. rewrite (int_head_build O _ _ _ _ Hne) in Ex.
    apply build_int_inv in Ex as (z & -> & _). simpl.
    pose proof (render_int_not_nil z) as Hz. destruct (render_int z); [now rewrite str_eqb_refl in Hz|reflexivity].
  - apply andb_true_iff in Hne as [He Hn]. unfold ke_enum in He. split_andb He.
    destruct (e_enum el) as [en|] eqn:Een; [|discriminate].
    destruct (enum_chain_build en _ He _ _ _ _ Ex) as (i & -> & Hi).
    rewrite forallb_forall in Hn.
    assert (Hin : In i (seq 0 (length (enum_members en)))) by (apply in_seq; lia).
    specialize (Hn _ Hin). simpl. apply negb_true_iff in Hn.
    destruct (enum_value en i); [now rewrite str_eqb_refl in Hn|reflexivity].
Qed.

(* ---------- abstract bases (never the class of a scheme column, but classes of the table) ---------- *)
Lemma eb_mccr O en sq sup t : eval_build O en sq ("MafCustomColumnRecord" :: sup) t = Ok VNone.
Proof. reflexivity. Qed.

(* MafCustomColumnRecord itself: __build__ is the abstract stub returning None, which prints "None" *)
Definition k_base (e : ecls) : bool :=
  hd_is (e_build e) "MafCustomColumnRecord" && mcr_str e && is_none (e_null e).
Lemma base_raw O r P : k_base (r_self r) = true -> raw_fix O r P.
Proof.
  intros H t v Hb _ _ _ _. unfold k_base, mcr_str in H. split_andb H.
  apply hd_is_eq in H as [sup H]. apply hd_is_eq in H1 as [sup' H1]. apply is_none_eq in H0.
  unfold cls_build_raw in *. rewrite H in *. rewrite eb_mccr in Hb. injection Hb as <-.
  exists (s2l "None"). rewrite H1, esi_mcr. split; [reflexivity|]. intros _.
  split; [intros d Hd; congruence|apply eb_mccr].
Qed.

(* EnumColumn without an enumeration (abstract __enum_class__): building always raises *)
Definition k_enum_abstract (e : ecls) : bool := enum_chain (e_build e) && is_none (e_enum e).
Lemma enum_chain_none O sq ch : enum_chain ch = true -> forall t, exists x, eval_build O None sq ch t = Raise x.
Proof.
  induction ch as [|c sup IH]; intros H t; [discriminate|]. cbn [enum_chain] in H.
  destruct (String.eqb c "EnumColumn") eqn:E.
  - apply String.eqb_eq in E. subst c. rewrite eb_enum. eauto.
  - destruct (cap_cls c || String.eqb c "YesNoOrUnknown") eqn:E2; [|discriminate].
    destruct (enum_chain_step None c sup t E E2) as [t2 Ht2]. rewrite (Ht2 O sq). now apply IH.
Qed.
Lemma enum_abstract_raw O r P : k_enum_abstract (r_self r) = true -> raw_fix O r P.
Proof.
  intros H t v Hb. exfalso. unfold k_enum_abstract in H. split_andb H. apply is_none_eq in H0.
  unfold cls_build_raw in Hb. rewrite H0 in Hb.
  destruct (enum_chain_none O (fun t0 => match r_elem r with
                                       | None => Raise TypeError
                                       | Some el => match map_res (eval_build O (e_enum el) no_seq (e_build el)) (split SEMI t0) with
                                                    | Ok vs => Ok (VList vs) | Raise x => Raise x end end)
              _ H t) as [x Hx].
  rewrite Hx in Hb. discriminate.
Qed.

(* SequenceOfValuesColumn without an element class (abstract __column_class__): building always raises *)
Definition k_seq_abstract (r : rcls) : bool :=
  hd_is (e_build (r_self r)) "SequenceOfValuesColumn" && is_none (r_elem r).
Lemma seq_abstract_raw O r P : k_seq_abstract r = true -> raw_fix O r P.
Proof.
  intros H t v Hb. exfalso. unfold k_seq_abstract in H. split_andb H.
  apply hd_is_eq in H as [sup H]. apply is_none_eq in H0.
  unfold cls_build_raw in Hb. rewrite H, H0, eb_seq in Hb. discriminate.
Qed.

(* ---------- the classifiers and the field-level theorems ---------- *)
Definition nonseq_ok (e : ecls) : bool :=
  k_rnv e || k_str e || k_int e || k_entrez e || k_float e || k_uuid e || k_enum e
  || k_canon e || k_bool e || k_strorint e || k_strintfloat e || k_base e || k_enum_abstract e.

Definition plain_ok (e : ecls) : bool :=
  negb (e_custom e) && is_none (e_null e) && hd_is (e_string_it e) "MafColumnRecord".

(* classes for which the fixpoint holds for every accepted value *)
Definition class_strict_ok (r : rcls) : bool :=
  plain_ok (r_self r) || (e_custom (r_self r) && e_null_ok (r_self r) && (nonseq_ok (r_self r) || (k_seq_strict r || k_seq_abstract r))).
(* ... and for every accepted value except one-element lists rendering '' *)
Definition class_ok (r : rcls) : bool :=
  plain_ok (r_self r) || (e_custom (r_self r) && e_null_ok (r_self r) && (nonseq_ok (r_self r) || (k_seq r || k_seq_abstract r))).

Lemma nonseq_raw O (HO : oracle_laws O) r P : nonseq_ok (r_self r) = true -> raw_fix O r P.
Proof.
  unfold nonseq_ok. intros H.
  repeat match type of H with _ || _ = true => apply orb_true_iff in H as [H|H] end.
  - now apply rnv_raw.
  - now apply str_raw.
  - now apply int_raw.
  - now apply entrez_raw.
  - now apply float_raw.
  - now apply uuid_raw.
  - now apply enum_raw.
  - now apply canon_raw.
  - now apply bool_raw.
  - now apply strorint_raw.
  - now apply strintfloat_raw.
  - now apply base_raw.
  - now apply enum_abstract_raw.
Qed.

Theorem field_fixpoint O (HO : oracle_laws O) r t v :
  class_ok r = true -> field_outcome O r t = Valid v -> single_empty v = false -> fix_at O r v.
Proof.
  intros H Hval Hse. unfold class_ok in H. apply orb_true_iff in H as [H|H].
  - unfold plain_ok in H. split_andb H. apply negb_true_iff in H. apply is_none_eq in H1.
    now apply (plain_fix O r H H1 H0 t v).
  - split_andb H. refine (custom_fix O r (fun v => single_empty v = false) H H1 _ t v Hval Hse).
    apply orb_true_iff in H0 as [H0|H0]; [now apply nonseq_raw|].
    apply orb_true_iff in H0 as [H0|H0]; [now apply seq_raw|now apply seq_abstract_raw].
Qed.

Theorem field_fixpoint_strict O (HO : oracle_laws O) r t v :
  class_strict_ok r = true -> field_outcome O r t = Valid v -> fix_at O r v.
Proof.
  intros H Hval. unfold class_strict_ok in H. apply orb_true_iff in H as [H|H].
  - unfold plain_ok in H. split_andb H. apply negb_true_iff in H. apply is_none_eq in H1.
    now apply (plain_fix O r H H1 H0 t v).
  - split_andb H. refine (custom_fix O r (fun _ => True) H H1 _ t v Hval I).
    apply orb_true_iff in H0 as [H0|H0]; [now apply nonseq_raw|].
    apply orb_true_iff in H0 as [H0|H0]; [now apply seq_strict_raw|now apply seq_abstract_raw].
Qed.

Lemma class_strict_ok_ok r : class_strict_ok r = true -> class_ok r = true.
Proof.
  unfold class_strict_ok, class_ok. intros H. apply orb_true_iff in H as [H|H]; [now rewrite H|].
  apply orb_true_iff. right. split_andb H. rewrite H, H1. simpl.
  apply orb_true_iff in H0 as [H0|H0]; [now rewrite H0|].
  apply orb_true_iff in H0 as [H0|H0].
  - unfold k_seq_strict in H0. apply andb_true_iff in H0 as [H0 _]. rewrite H0. apply orb_true_r.
  - rewrite H0. now rewrite !orb_true_r.
Qed.

(* the fixpoint clause spelled out: whatever the rendering parses to renders to the same text *)
Lemma fix_at_renders_to_itself O r v t' :
  col_str r v = Ok t' -> field_outcome O r t' = Valid v ->
  forall v', field_outcome O r t' = Valid v' -> v' = v /\ col_str r v' = Ok t'.
Proof. intros Hs Hv v' Hv'. rewrite Hv in Hv'. injection Hv' as <-. auto. Qed.

(* ---------- the documented domain kinds of ColumnFacts.shape are all strict ---------- *)
Lemma shape_strict_ok d : forall ec, shape d = Some ec -> class_strict_ok (mk_r ec None) = true.
Proof.
  induction d; intros ec H; simpl in H; try discriminate.
  - destruct nonempty, nullable; try discriminate; injection H as <-; reflexivity.
  - injection H as <-. destruct nullable; reflexivity.
  - injection H as <-. reflexivity.
  - injection H as <-. destruct nullable; reflexivity.
  - injection H as <-. reflexivity.
  - destruct (shape d) as [eb|] eqn:Hb; [|discriminate]. simpl in H. injection H as <-.
    pose proof (IHd eb eq_refl) as IH. pose proof (shape_custom _ _ Hb) as Hc.
    unfold class_strict_ok in *. cbn [r_self mk_r] in *.
    unfold plain_ok in IH. rewrite Hc in IH. cbn [negb andb orb] in IH.
    apply andb_true_iff in IH as [IH _].
    apply orb_true_iff. right.
    assert (E1 : e_custom (with_rnv eb) = true) by exact Hc.
    assert (E2 : e_null_ok (with_rnv eb) = true) by exact IH.
    rewrite E1, E2. reflexivity.
Qed.

Theorem documented_kind_fixpoint O (HO : oracle_laws O) d e t v :
  shape d = Some e -> fo O e t = Valid v -> fix_at O (mk_r e None) v.
Proof. intros Hs Hv. apply (field_fixpoint_strict O HO (mk_r e None) t v); [now apply (shape_strict_ok d)|exact Hv]. Qed.
