(* HeaderStore.v - independence of a header derived by from_reader (deepcopy)
   from the reader's own header, in the store model of model/Header.v (C13).
   Footprints, well-formedness, the copy is fresh and reads the same, and a
   frame property for every mutation of either header. *)
From MafVerif Require Import lib.Base lib.Str model.Validation model.Header spec.SpecHeader
  proofs.HeaderSpec.
Import Store.
Local Open Scope nat_scope.

(* ---------- heap access ---------- *)
Lemma hget_lt hp r c : hget hp r = Some c -> r < length hp.
Proof. unfold hget. intros H. apply nth_error_Some. congruence. Qed.

Lemma hget_app_l hp ext r : r < length hp -> hget (hp ++ ext) r = hget hp r.
Proof. unfold hget. intros H. now apply nth_error_app1. Qed.

Lemma hget_app_new hp c : hget (hp ++ [c]) (length hp) = Some c.
Proof. unfold hget. rewrite nth_error_app2, Nat.sub_diag by lia. reflexivity. Qed.

Lemma hget_hput_same hp r c : r < length hp -> hget (hput hp r c) r = Some c.
Proof.
  unfold hget, hput. revert r. induction hp as [|y hp IH]; intros r H; simpl in *; [lia|].
  destruct r as [|r]; simpl; [reflexivity|]. apply IH. lia.
Qed.

Lemma hget_hput_other hp r c x : x <> r -> hget (hput hp r c) x = hget hp x.
Proof.
  unfold hget, hput. revert r x. induction hp as [|y hp IH]; intros r x H; simpl.
  - now destruct r.
  - destruct r as [|r]; destruct x as [|x]; simpl; try reflexivity; try lia.
    apply IH. lia.
Qed.

Lemma length_hput hp r c : length (hput hp r c) = length hp.
Proof.
  unfold hput. revert r. induction hp as [|y hp IH]; intros r; simpl; [now destruct r|].
  destruct r; simpl; [reflexivity|]. now rewrite IH.
Qed.

(* ---------- footprint and well-formedness ---------- *)
(* the list object a record value points to *)
Definition mentions (v : svalue) (x : ref) : Prop :=
  match v with
  | SText _ => False
  | SOrder _ None => False
  | SOrder _ (Some l) => l = x
  | SContigs l => l = x
  end.

(* a record ref points to a record cell whose list ref points to a list cell *)
Definition wf_rec (hp : heap) (r : ref) : Prop :=
  exists key v, hget hp r = Some (CRec key v) /\
                forall l, mentions v l -> exists items, hget hp l = Some (CList items).

Definition wf (hp : heap) (h : sheader) : Prop := forall k r, In (k, r) h -> wf_rec hp r.

(* the objects a header reaches: its record objects and their list objects *)
Definition in_fp (hp : heap) (h : sheader) (x : ref) : Prop :=
  exists k r, In (k, r) h /\
    (x = r \/ exists key v, hget hp r = Some (CRec key v) /\ mentions v x).

Lemma fp_lt hp h x : wf hp h -> in_fp hp h x -> x < length hp.
Proof.
  intros W [k [r [Hin [->|[key [v [Hg Hm]]]]]]].
  - destruct (W _ _ Hin) as [key [v [Hg _]]]. eapply hget_lt; eauto.
  - destruct (W _ _ Hin) as [key' [v' [Hg' Hl]]]. rewrite Hg in Hg'. injection Hg' as <- <-.
    destruct (Hl _ Hm) as [items Hi]. eapply hget_lt; eauto.
Qed.

(* everything below only looks at the heap inside the footprint *)
Definition agree_on (hp hp' : heap) (h : sheader) : Prop :=
  forall x, in_fp hp h x -> hget hp' x = hget hp x.

Lemma list_at_agree hp hp' l : hget hp' l = hget hp l -> list_at hp' l = list_at hp l.
Proof. unfold list_at. now intros ->. Qed.

Lemma value_at_agree hp hp' v :
  (forall l, mentions v l -> hget hp' l = hget hp l) -> value_at hp' v = value_at hp v.
Proof.
  intros H. destruct v as [s|o [l|]|l]; simpl in *; try reflexivity;
    now rewrite (list_at_agree hp hp' l (H l eq_refl)).
Qed.

Lemma view_agree hp hp' h : agree_on hp hp' h -> view hp' h = view hp h.
Proof.
  intros Ag. unfold view. apply map_ext_in. intros [k r] Hin. cbn [fst snd].
  rewrite (Ag r) by (exists k, r; auto).
  destruct (hget hp r) as [[key v|items]|] eqn:Hg; try reflexivity.
  rewrite (value_at_agree hp hp' v); [reflexivity|].
  intros l Hm. apply Ag. exists k, r. split; [assumption|right; eauto].
Qed.

Lemma wf_agree hp hp' h : agree_on hp hp' h -> wf hp h -> wf hp' h.
Proof.
  intros Ag W k r Hin. destruct (W _ _ Hin) as [key [v [Hg Hl]]].
  exists key, v. split.
  - rewrite (Ag r); [assumption|]. exists k, r. auto.
  - intros l Hm. destruct (Hl _ Hm) as [items Hi]. exists items.
    rewrite (Ag l); [assumption|]. exists k, r. split; [assumption|right; eauto].
Qed.

Lemma fp_agree hp hp' h x : agree_on hp hp' h -> (in_fp hp' h x <-> in_fp hp h x).
Proof.
  intros Ag. split; intros [k [r [Hin H]]]; exists k, r; (split; [assumption|]);
    (destruct H as [->|[key [v [Hg Hm]]]]; [now left|right]); exists key, v; (split; [|assumption]).
  - rewrite <- (Ag r); [assumption|]. exists k, r. auto.
  - rewrite (Ag r); [assumption|]. exists k, r. auto.
Qed.

Lemma agree_ext hp ext h : wf hp h -> agree_on hp (hp ++ ext) h.
Proof. intros W x Hx. apply hget_app_l. eapply fp_lt; eauto. Qed.

(* ---------- association-list facts ---------- *)
Lemma sassoc_in (h : sheader) k r : assoc k h = Some r -> In (k, r) h.
Proof.
  induction h as [|[k' r'] h IH]; simpl; [discriminate|].
  destruct (str_eqb k k') eqn:E.
  - apply str_eqb_eq in E. subst. intros H. injection H as ->. now left.
  - intros H. right. auto.
Qed.

Lemma in_dset_weak (h : sheader) k r k' r' : In (k', r') (dset k r h) -> (k', r') = (k, r) \/ In (k', r') h.
Proof.
  induction h as [|[k2 r2] h IH]; simpl.
  - intros [H|[]]. now left.
  - destruct (str_eqb k k2); simpl.
    + intros [H|H]; [now left|right; now right].
    + intros [H|H]; [right; now left|]. destruct (IH H); [now left|right; now right].
Qed.

Lemma in_ddel_weak (h : sheader) k k' r' : In (k', r') (ddel k h) -> In (k', r') h.
Proof.
  induction h as [|[k2 r2] h IH]; simpl; [tauto|].
  destruct (str_eqb k k2); simpl; [now right|]. intros [H|H]; [now left|right; auto].
Qed.

(* ---------- one mutation: what it does to the heap and to the mutated header ---------- *)
(* the three facts every mutation of header `a` satisfies *)
Definition step_ok (hp : heap) (a : sheader) (hp' : heap) (a' : sheader) : Prop :=
  (forall x, x < length hp -> ~ in_fp hp a x -> hget hp' x = hget hp x) /\
  wf hp' a' /\
  (forall x, in_fp hp' a' x -> in_fp hp a x \/ length hp <= x).

Lemma step_none hp a : wf hp a -> step_ok hp a hp a.
Proof. intros W. repeat split; auto. Qed.

(* a smaller header over the same heap *)
Lemma step_sub hp a a' :
  wf hp a -> (forall k r, In (k, r) a' -> In (k, r) a) -> step_ok hp a hp a'.
Proof.
  intros W Sub. repeat split; auto.
  - intros k r Hin. apply (W k r). auto.
  - intros x [k [r [Hin H]]]. left. exists k, r. split; auto.
Qed.

(* the heap grows by `ext`, which holds a new record cell at r (and possibly the
   new list cell it points to); the record is filed under k *)
Lemma step_alloc_rec hp a ext k r key v :
  wf hp a ->
  hget (hp ++ ext) r = Some (CRec key v) -> length hp <= r ->
  (forall l, mentions v l -> length hp <= l /\ exists items, hget (hp ++ ext) l = Some (CList items)) ->
  step_ok hp a (hp ++ ext) (dset k r a).
Proof.
  intros W Hr Hge Hv. repeat split.
  - intros x Hx _. now apply hget_app_l.
  - intros k' r' Hin. apply in_dset_weak in Hin as [Hin|Hin].
    + injection Hin as -> ->. exists key, v. split; [assumption|].
      intros l Hm. now destruct (Hv l Hm).
    + exact (wf_agree hp (hp ++ ext) a (agree_ext hp ext a W) W k' r' Hin).
  - intros x [k' [r' [Hin H]]]. apply in_dset_weak in Hin as [Hin|Hin].
    + injection Hin as -> ->. right. destruct H as [->|[key' [v' [Hg Hm]]]]; [assumption|].
      rewrite Hr in Hg. injection Hg as <- <-. now destruct (Hv x Hm).
    + left. exists k', r'. split; [assumption|].
      destruct H as [->|[key' [v' [Hg Hm]]]]; [now left|right].
      exists key', v'. split; [|assumption].
      rewrite hget_app_l in Hg; [assumption|].
      destruct (W _ _ Hin) as [? [? [Hg' _]]]. eapply hget_lt; eauto.
Qed.

(* a record object of `a` is overwritten in place by a record mentioning no new list *)
Lemma step_put_rec hp a k r key v key' v' :
  wf hp a -> In (k, r) a -> hget hp r = Some (CRec key v) ->
  (forall l, mentions v' l -> mentions v l) ->
  step_ok hp a (hput hp r (CRec key' v')) a.
Proof.
  intros W Hin Hg Hsub.
  assert (Hlt : r < length hp) by (eapply hget_lt; eauto).
  assert (Hlist : forall l items, hget hp l = Some (CList items) -> l <> r)
    by (intros l items Hl ->; congruence).
  repeat split.
  - intros x _ Hx. apply hget_hput_other. intros ->. apply Hx. exists k, r. auto.
  - intros k2 r2 Hin2. destruct (Nat.eq_dec r2 r) as [->|Hne].
    + exists key', v'. split; [now apply hget_hput_same|].
      intros l Hm. destruct (W _ _ Hin) as [key0 [v0 [Hg0 Hl0]]].
      rewrite Hg in Hg0. injection Hg0 as <- <-.
      destruct (Hl0 l (Hsub l Hm)) as [items Hi]. exists items.
      rewrite hget_hput_other; [assumption|eauto].
    + destruct (W _ _ Hin2) as [key2 [v2 [Hg2 Hl2]]]. exists key2, v2. split.
      * now rewrite hget_hput_other.
      * intros l Hm. destruct (Hl2 l Hm) as [items Hi]. exists items.
        rewrite hget_hput_other; [assumption|eauto].
  - intros x [k2 [r2 [Hin2 H]]]. left.
    destruct H as [->|[key2 [v2 [Hg2 Hm]]]]; [exists k2, r2; auto|].
    destruct (Nat.eq_dec r2 r) as [->|Hne].
    + rewrite hget_hput_same in Hg2 by assumption. injection Hg2 as <- <-.
      exists k, r. split; [assumption|right]. exists key, v. auto.
    + rewrite hget_hput_other in Hg2 by assumption.
      exists k2, r2. split; [assumption|right]. exists key2, v2. auto.
Qed.

(* a list object of `a` is overwritten in place by a list *)
Lemma step_put_list hp a l items items' :
  wf hp a -> in_fp hp a l -> hget hp l = Some (CList items) ->
  step_ok hp a (hput hp l (CList items')) a.
Proof.
  intros W Hfp Hg.
  assert (Hlt : l < length hp) by (eapply hget_lt; eauto).
  assert (Hrec : forall r key v, hget hp r = Some (CRec key v) -> r <> l)
    by (intros r key v Hr ->; congruence).
  repeat split.
  - intros x _ Hx. apply hget_hput_other. intros ->. tauto.
  - intros k2 r2 Hin2. destruct (W _ _ Hin2) as [key2 [v2 [Hg2 Hl2]]]. exists key2, v2. split.
    + rewrite hget_hput_other; [assumption|eauto].
    + intros l2 Hm. destruct (Nat.eq_dec l2 l) as [->|Hne].
      * exists items'. now apply hget_hput_same.
      * destruct (Hl2 l2 Hm) as [it Hi]. exists it. now rewrite hget_hput_other.
  - intros x [k2 [r2 [Hin2 H]]]. left. exists k2, r2. split; [assumption|].
    destruct H as [->|[key2 [v2 [Hg2 Hm]]]]; [now left|right].
    destruct (W _ _ Hin2) as [key0 [v0 [Hg0 _]]].
    rewrite hget_hput_other in Hg2 by eauto. eauto.
Qed.

Lemma apply_mut_step hp a m hp' a' :
  wf hp a -> apply_mut hp a m = (hp', a') -> step_ok hp a hp' a'.
Proof.
  intros W. destruct m as [k v|k|k v|k k'|k c|cs]; cbn [apply_mut alloc].
  - (* MSetText *)
    intros H. injection H as <- <-.
    apply (step_alloc_rec hp a [CRec k (SText v)] k (length hp) k (SText v)); auto.
    + apply hget_app_new.
    + intros l [].
  - (* MDel *)
    intros H. injection H as <- <-. apply step_sub; [assumption|]. intros k' r'. apply in_ddel_weak.
  - (* MAssignValue *)
    destruct (assoc k a) as [r|] eqn:Ea; [|intros H; injection H as <- <-; now apply step_none].
    destruct (hget hp r) as [[key v0|items]|] eqn:Hg;
      try (intros H; injection H as <- <-; now apply step_none).
    intros H. injection H as <- <-.
    apply (step_put_rec hp a k r key v0 key (SText v)); auto; [now apply sassoc_in|intros l []].
  - (* MAssignKey *)
    destruct (assoc k a) as [r|] eqn:Ea; [|intros H; injection H as <- <-; now apply step_none].
    destruct (hget hp r) as [[key v0|items]|] eqn:Hg;
      try (intros H; injection H as <- <-; now apply step_none).
    intros H. injection H as <- <-.
    apply (step_put_rec hp a k r key v0 k' v0); auto. now apply sassoc_in.
  - (* MAppendContig *)
    destruct (assoc k a) as [r|] eqn:Ea; [|intros H; injection H as <- <-; now apply step_none].
    apply sassoc_in in Ea.
    destruct (hget hp r) as [[key v0|items]|] eqn:Hg;
      try (intros H; injection H as <- <-; now apply step_none).
    assert (Put : forall l, mentions v0 l ->
              step_ok hp a (hput hp l (CList (list_at hp l ++ [c]))) a).
    { intros l Hm. destruct (W _ _ Ea) as [key1 [v1 [Hg1 Hl1]]].
      rewrite Hg in Hg1. injection Hg1 as <- <-. destruct (Hl1 l Hm) as [items Hi].
      apply (step_put_list hp a l items); auto. exists k, r. split; [assumption|right; eauto]. }
    destruct v0 as [s|o [l|]|l];
      try (intros H; injection H as <- <-; now apply step_none);
      intros H; injection H as <- <-; apply Put; reflexivity.
  - (* MSetContigs *)
    intros H. injection H as <- <-. rewrite <- app_assoc. cbn [app].
    apply (step_alloc_rec hp a [CList cs; CRec K_CONTIGS (SContigs (length hp))] K_CONTIGS
                          (length (hp ++ [CList cs])) K_CONTIGS (SContigs (length hp))); auto.
    + rewrite app_length. cbn [length]. unfold hget.
      rewrite nth_error_app2 by lia. replace (length hp + 1 - length hp) with 1 by lia. reflexivity.
    + rewrite app_length. lia.
    + intros l Hl. simpl in Hl. subst l. split; [lia|]. exists cs. unfold hget.
      rewrite nth_error_app2, Nat.sub_diag by lia. reflexivity.
Qed.

(* ---------- the invariant and the frame property ---------- *)
Definition separate (hp : heap) (a b : sheader) : Prop :=
  wf hp a /\ wf hp b /\ forall x, in_fp hp a x -> in_fp hp b x -> False.

Lemma separate_sym hp a b : separate hp a b -> separate hp b a.
Proof. intros [Wa [Wb D]]. repeat split; auto. intros x Hb Ha. eapply D; eauto. Qed.

(* mutating one header leaves the other's reading unchanged, and they stay separate *)
Lemma frame_step hp a b m hp' a' :
  separate hp a b -> apply_mut hp a m = (hp', a') ->
  view hp' b = view hp b /\ separate hp' a' b.
Proof.
  intros [Wa [Wb D]] H. destruct (apply_mut_step _ _ _ _ _ Wa H) as [P1 [P2 P3]].
  assert (Ag : agree_on hp hp' b).
  { intros x Hx. apply P1; [eapply fp_lt; eauto|]. intros Ha. eapply D; eauto. }
  split; [now apply view_agree|]. repeat split; auto.
  - eapply wf_agree; eauto.
  - intros x Ha Hb. apply (fp_agree hp hp' b x Ag) in Hb.
    destruct (P3 x Ha) as [Ha'|Hge]; [eapply D; eauto|].
    pose proof (fp_lt _ _ _ Wb Hb). lia.
Qed.

Lemma frame_muts ms : forall hp a b hp' a',
  separate hp a b -> apply_muts hp a ms = (hp', a') ->
  view hp' b = view hp b /\ separate hp' a' b.
Proof.
  induction ms as [|m ms IH]; intros hp a b hp' a' S H; cbn [apply_muts] in H.
  - injection H as <- <-. auto.
  - destruct (apply_mut hp a m) as [hp1 a1] eqn:E.
    destruct (frame_step _ _ _ _ _ _ S E) as [V1 S1].
    destruct (IH _ _ _ _ _ S1 H) as [V2 S2]. split; [congruence|assumption].
Qed.

(* any interleaving of mutations of the two headers: `true` mutates a, `false` b *)
Fixpoint apply_both (hp : heap) (a b : sheader) (ms : list (bool * mut)) : heap * sheader * sheader :=
  match ms with
  | [] => (hp, a, b)
  | (true, m) :: rest => let '(hp', a') := apply_mut hp a m in apply_both hp' a' b rest
  | (false, m) :: rest => let '(hp', b') := apply_mut hp b m in apply_both hp' a b' rest
  end.

Lemma separate_history ms : forall hp a b hp' a' b',
  separate hp a b -> apply_both hp a b ms = (hp', a', b') -> separate hp' a' b'.
Proof.
  induction ms as [|[[|] m] ms IH]; intros hp a b hp' a' b' S H; cbn [apply_both] in H.
  - injection H as <- <- <-. assumption.
  - destruct (apply_mut hp a m) as [hp1 a1] eqn:E.
    destruct (frame_step _ _ _ _ _ _ S E) as [_ S1]. eapply IH; eauto.
  - destruct (apply_mut hp b m) as [hp1 b1] eqn:E.
    destruct (frame_step _ _ _ _ _ _ (separate_sym _ _ _ S) E) as [_ S1].
    eapply IH; [apply separate_sym; exact S1|eauto].
Qed.

(* ---------- deepcopy ---------- *)
(* the copy of one record value (the inner match of deepcopy) *)
Definition copy_val (hp : heap) (memo : list (ref * ref)) (v : svalue)
  : heap * list (ref * ref) * svalue :=
  match v with
  | SText s => (hp, memo, SText s)
  | SOrder o None => (hp, memo, SOrder o None)
  | SOrder o (Some l) =>
      let '(hp', memo', l') := copy_list hp memo l in (hp', memo', SOrder o (Some l'))
  | SContigs l =>
      let '(hp', memo', l') := copy_list hp memo l in (hp', memo', SContigs l')
  end.

Lemma deepcopy_cons hp memo k r rest :
  deepcopy hp memo ((k, r) :: rest) =
  match hget hp r with
  | Some (CRec key v) =>
      let '(hp1, memo1, v') := copy_val hp memo v in
      let '(hp2, r') := alloc hp1 (CRec key v') in
      let '(hp3, h') := deepcopy hp2 memo1 rest in
      (hp3, (k, r') :: h')
  | _ => deepcopy hp memo rest
  end.
Proof. reflexivity. Qed.

(* memo entries point to fresh list cells holding the source list *)
Definition memo_ok (hp0 hp : heap) (memo : list (ref * ref)) : Prop :=
  forall l l', In (l, l') memo -> length hp0 <= l' /\ hget hp l' = Some (CList (list_at hp0 l)).

Lemma memo_ok_ext hp0 hp ext memo : memo_ok hp0 hp memo -> memo_ok hp0 (hp ++ ext) memo.
Proof.
  intros M l l' Hin. destruct (M _ _ Hin) as [Hge Hg]. split; [assumption|].
  rewrite hget_app_l; [assumption|]. eapply hget_lt; eauto.
Qed.

Lemma copy_list_spec hp0 ext memo l hp1 memo1 l' :
  l < length hp0 -> memo_ok hp0 (hp0 ++ ext) memo ->
  copy_list (hp0 ++ ext) memo l = (hp1, memo1, l') ->
  exists ext1, hp1 = hp0 ++ ext ++ ext1 /\ memo_ok hp0 hp1 memo1 /\
               length hp0 <= l' /\ hget hp1 l' = Some (CList (list_at hp0 l)).
Proof.
  intros Hl M. unfold copy_list.
  destruct (find (fun p => Nat.eqb (fst p) l) memo) as [[l0 l1]|] eqn:Ef.
  - intros H. injection H as <- <- <-. apply find_some in Ef as [Hin E].
    apply Nat.eqb_eq in E. cbn [fst] in E. subst l0.
    destruct (M _ _ Hin) as [Hge Hg]. exists []. rewrite app_nil_r. auto.
  - cbn [alloc]. intros H. injection H as <- <- <-.
    assert (Hla : list_at (hp0 ++ ext) l = list_at hp0 l)
      by (apply list_at_agree; now apply hget_app_l).
    exists [CList (list_at (hp0 ++ ext) l)]. rewrite <- app_assoc. split; [reflexivity|].
    rewrite app_assoc. split; [|split].
    + intros l2 l2' [H|H].
      * injection H as <- <-. split; [rewrite app_length; lia|].
        rewrite hget_app_new. now rewrite Hla.
      * exact (memo_ok_ext _ _ _ _ M l2 l2' H).
    + rewrite app_length. lia.
    + rewrite hget_app_new. now rewrite Hla.
Qed.

Lemma copy_val_spec hp0 ext memo v hp1 memo1 v' :
  (forall l, mentions v l -> l < length hp0) -> memo_ok hp0 (hp0 ++ ext) memo ->
  copy_val (hp0 ++ ext) memo v = (hp1, memo1, v') ->
  exists ext1, hp1 = hp0 ++ ext ++ ext1 /\ memo_ok hp0 hp1 memo1 /\
    (forall x, mentions v' x -> length hp0 <= x /\ exists items, hget hp1 x = Some (CList items)) /\
    (forall hp2, (forall x, mentions v' x -> hget hp2 x = hget hp1 x) -> value_at hp2 v' = value_at hp0 v).
Proof.
  intros Hm M. destruct v as [s|o [l|]|l]; cbn [copy_val].
  - intros H. injection H as <- <- <-. exists []. rewrite app_nil_r.
    split; [reflexivity|]. split; [assumption|]. split; [intros x []|]. intros hp2 _. reflexivity.
  - destruct (copy_list (hp0 ++ ext) memo l) as [[hp' memo'] l2] eqn:Ec.
    intros H. injection H as <- <- <-.
    destruct (copy_list_spec _ _ _ _ _ _ _ (Hm l eq_refl) M Ec) as [ext1 [-> [M1 [Hge Hg]]]].
    exists ext1. split; [reflexivity|]. split; [assumption|]. split.
    + intros x Hx. simpl in Hx. subst x. eauto.
    + intros hp2 H2. cbn [value_at]. unfold list_at at 1. now rewrite (H2 l2 eq_refl), Hg.
  - intros H. injection H as <- <- <-. exists []. rewrite app_nil_r.
    split; [reflexivity|]. split; [assumption|]. split; [intros x []|]. intros hp2 _. reflexivity.
  - destruct (copy_list (hp0 ++ ext) memo l) as [[hp' memo'] l2] eqn:Ec.
    intros H. injection H as <- <- <-.
    destruct (copy_list_spec _ _ _ _ _ _ _ (Hm l eq_refl) M Ec) as [ext1 [-> [M1 [Hge Hg]]]].
    exists ext1. split; [reflexivity|]. split; [assumption|]. split.
    + intros x Hx. simpl in Hx. subst x. eauto.
    + intros hp2 H2. cbn [value_at]. unfold list_at at 1. now rewrite (H2 l2 eq_refl), Hg.
Qed.

Lemma deepcopy_gen hp0 h : forall ext memo hp' h',
  wf hp0 h -> memo_ok hp0 (hp0 ++ ext) memo ->
  deepcopy (hp0 ++ ext) memo h = (hp', h') ->
  (exists ext', hp' = hp0 ++ ext ++ ext') /\
  view hp' h' = view hp0 h /\ wf hp' h' /\
  (forall x, in_fp hp' h' x -> length hp0 <= x).
Proof.
  induction h as [|[k r] rest IH]; intros ext memo hp' h' W M.
  - cbn [deepcopy]. intros H. injection H as <- <-. split; [exists []; now rewrite app_nil_r|].
    split; [reflexivity|]. split; [intros ? ? []|]. intros x [? [? [[] _]]].
  - rewrite deepcopy_cons.
    destruct (W k r (or_introl eq_refl)) as [key [v [Hg Hl]]].
    rewrite (hget_app_l hp0 ext r) by (eapply hget_lt; eauto). rewrite Hg.
    destruct (copy_val (hp0 ++ ext) memo v) as [[hp1 memo1] v'] eqn:Ev.
    assert (Hm : forall l, mentions v l -> l < length hp0).
    { intros l Hml. destruct (Hl l Hml) as [items Hi]. eapply hget_lt; eauto. }
    destruct (copy_val_spec _ _ _ _ _ _ _ Hm M Ev) as [ext1 [-> [M1 [Hv' Hval]]]].
    cbn [alloc].
    set (r' := length (hp0 ++ ext ++ ext1)).
    destruct (deepcopy ((hp0 ++ ext ++ ext1) ++ [CRec key v']) memo1 rest) as [hp3 h3] eqn:Ed.
    intros H. injection H as <- <-.
    assert (Wrest : wf hp0 rest) by (intros k2 r2 Hin; apply (W k2 r2); now right).
    rewrite <- !app_assoc in Ed.
    assert (M2 : memo_ok hp0 (hp0 ++ ext ++ ext1 ++ [CRec key v']) memo1).
    { replace (hp0 ++ ext ++ ext1 ++ [CRec key v']) with ((hp0 ++ ext ++ ext1) ++ [CRec key v'])
        by (now rewrite <- !app_assoc). now apply memo_ok_ext. }
    replace (hp0 ++ ext ++ ext1 ++ [CRec key v']) with (hp0 ++ (ext ++ ext1 ++ [CRec key v'])) in Ed, M2
      by reflexivity.
    destruct (IH _ _ _ _ Wrest M2 Ed) as [[ext' ->] [Vw [W3 F3]]].
    set (hp1 := hp0 ++ ext ++ ext1) in *.
    set (hp3 := hp0 ++ (ext ++ ext1 ++ [CRec key v']) ++ ext') in *.
    assert (E3 : hp3 = (hp1 ++ [CRec key v']) ++ ext')
      by (unfold hp3, hp1; now rewrite <- !app_assoc).
    assert (Hr' : hget hp3 r' = Some (CRec key v')).
    { rewrite E3, hget_app_l by (rewrite app_length; cbn; unfold r'; lia). apply hget_app_new. }
    assert (Hold : forall x, x < length hp1 -> hget hp3 x = hget hp1 x).
    { intros x Hx. rewrite E3, <- app_assoc. now apply hget_app_l. }
    assert (Hv3 : forall x, mentions v' x -> hget hp3 x = hget hp1 x).
    { intros x Hx. apply Hold. destruct (Hv' x Hx) as [_ [items Hi]]. eapply hget_lt; eauto. }
    split; [|split; [|split]].
    + exists (ext1 ++ [CRec key v'] ++ ext'). unfold hp3. now rewrite <- !app_assoc.
    + cbn [view map fst snd]. rewrite Hr', Hg. fold (view hp3 h3). fold (view hp0 rest).
      rewrite Vw, (Hval hp3 Hv3). reflexivity.
    + intros k2 r2 [H|H]; [|now apply (W3 k2 r2)]. injection H as <- <-.
      exists key, v'. split; [assumption|]. intros l Hml.
      destruct (Hv' l Hml) as [_ [items Hi]]. exists items. now rewrite (Hv3 l Hml).
    + intros x [k2 [r2 [[H|H] Hx]]].
      * injection H as <- <-. destruct Hx as [->|[key2 [v2 [Hg2 Hm2]]]].
        -- unfold r', hp1. rewrite app_length. lia.
        -- rewrite Hr' in Hg2. injection Hg2 as <- <-. now destruct (Hv' x Hm2).
      * apply F3. exists k2, r2. auto.
Qed.

(* (i) the copy reads the same as the source, the source still reads the same,
   every object of the copy is new, and the two headers are separate *)
Theorem deepcopy_spec hp src hp1 cp :
  wf hp src -> deepcopy hp [] src = (hp1, cp) ->
  view hp1 src = view hp src /\ view hp1 cp = view hp src /\
  (forall x, in_fp hp1 cp x -> length hp <= x) /\
  (forall x, in_fp hp1 src x -> x < length hp) /\
  separate hp1 src cp.
Proof.
  intros W H. rewrite <- (app_nil_r hp) in H at 1.
  destruct (deepcopy_gen hp src [] [] hp1 cp W (fun _ _ F => match F with end) H)
    as [[ext' ->] [Vw [Wc Fc]]].
  cbn [app] in *.
  pose proof (agree_ext hp ext' src W) as Ag.
  assert (Fs : forall x, in_fp (hp ++ ext') src x -> x < length hp).
  { intros x Hx. apply (fp_agree _ _ _ _ Ag) in Hx. eapply fp_lt; eauto. }
  split; [now apply view_agree|]. split; [assumption|]. split; [assumption|]. split; [assumption|].
  split; [eapply wf_agree; eauto|]. split; [assumption|].
  intros x Hs Hc. specialize (Fs x Hs). specialize (Fc x Hc). lia.
Qed.

(* (ii) whatever is done to the derived header, the source reads as before;
   whatever is done to the source, the derived header reads as before *)
Theorem derived_header_independent hp src hp1 cp :
  wf hp src -> deepcopy hp [] src = (hp1, cp) ->
  (forall ms hp2 cp', apply_muts hp1 cp ms = (hp2, cp') -> view hp2 src = view hp src) /\
  (forall ms hp2 src', apply_muts hp1 src ms = (hp2, src') -> view hp2 cp = view hp src).
Proof.
  intros W H. destruct (deepcopy_spec _ _ _ _ W H) as [V1 [V2 [_ [_ S]]]]. split.
  - intros ms hp2 cp' Hm.
    destruct (frame_muts ms _ _ _ _ _ (separate_sym _ _ _ S) Hm) as [V _]. congruence.
  - intros ms hp2 src' Hm.
    destruct (frame_muts ms _ _ _ _ _ S Hm) as [V _]. congruence.
Qed.

(* ... and under any interleaving of mutations of both, each single step
   leaves the other header's reading unchanged (the headers stay separate) *)
Theorem derived_header_stays_separate hp src hp1 cp ms hp2 src' cp' :
  wf hp src -> deepcopy hp [] src = (hp1, cp) ->
  apply_both hp1 src cp ms = (hp2, src', cp') ->
  separate hp2 src' cp' /\
  (forall m hp3 x, apply_mut hp2 src' m = (hp3, x) -> view hp3 cp' = view hp2 cp') /\
  (forall m hp3 x, apply_mut hp2 cp' m = (hp3, x) -> view hp3 src' = view hp2 src').
Proof.
  intros W H Hb. destruct (deepcopy_spec _ _ _ _ W H) as [_ [_ [_ [_ S]]]].
  pose proof (separate_history ms _ _ _ _ _ _ S Hb) as S2. split; [assumption|]. split.
  - intros m hp3 x Hm. now destruct (frame_step _ _ _ _ _ _ S2 Hm).
  - intros m hp3 x Hm. now destruct (frame_step _ _ _ _ _ _ (separate_sym _ _ _ S2) Hm).
Qed.

(* a decidable check of well-formedness, for concrete heaps *)
Definition wf_recb (hp : heap) (r : ref) : bool :=
  match hget hp r with
  | Some (CRec _ (SOrder _ (Some l))) | Some (CRec _ (SContigs l)) =>
      match hget hp l with Some (CList _) => true | _ => false end
  | Some (CRec _ _) => true
  | _ => false
  end.
Definition wfb (hp : heap) (h : sheader) : bool := forallb (fun kr => wf_recb hp (snd kr)) h.

Lemma wfb_sound hp h : wfb hp h = true -> wf hp h.
Proof.
  unfold wfb. rewrite forallb_forall. intros H k r Hin. specialize (H _ Hin). cbn [snd] in H.
  unfold wf_recb in H. destruct (hget hp r) as [[key v|]|] eqn:Hg; try discriminate.
  exists key, v. split; [assumption|].
  destruct v as [s|o [l|]|l]; simpl; try tauto; intros l' <-;
    (destruct (hget hp l) as [[|items]|]; try discriminate; eauto).
Qed.

(* ---------- the heap from_lines builds is well-formed ---------- *)
(* the inner match of alloc_header *)
Definition alloc_val (hp : heap) (v : hvalue) (shared : option ref) : heap * svalue * option ref :=
  match v with
  | HText s => (hp, SText s, shared)
  | HContigs cs =>
      match shared with
      | Some l => (hp, SContigs l, shared)
      | None => let '(hp', l) := alloc hp (CList cs) in (hp', SContigs l, Some l)
      end
  | HOrder o [] => (hp, SOrder o None, shared)
  | HOrder o cs =>
      match shared with
      | Some l => (hp, SOrder o (Some l), shared)
      | None => let '(hp', l) := alloc hp (CList cs) in (hp', SOrder o (Some l), Some l)
      end
  end.

Lemma alloc_header_cons hp k r rest shared :
  alloc_header hp ((k, r) :: rest) shared =
  let '(hp1, sv, shared') := alloc_val hp (hval r) shared in
  let '(hp2, rf) := alloc hp1 (CRec (hkey r) sv) in
  let '(hp3, sh) := alloc_header hp2 rest shared' in
  (hp3, (k, rf) :: sh).
Proof. reflexivity. Qed.

(* all list-valued records of the header hold the same contig list cs0 *)
Definition one_list (cs0 : list str) (v : hvalue) : Prop :=
  match v with
  | HText _ => True
  | HContigs cs => cs = cs0
  | HOrder _ [] => True
  | HOrder _ cs => cs = cs0
  end.
Definition shared_ok (hp : heap) (shared : option ref) (cs0 : list str) : Prop :=
  match shared with None => True | Some l => hget hp l = Some (CList cs0) end.

Lemma alloc_val_spec hp v shared cs0 hp1 sv shared' :
  shared_ok hp shared cs0 -> one_list cs0 v ->
  alloc_val hp v shared = (hp1, sv, shared') ->
  exists ext1, hp1 = hp ++ ext1 /\ shared_ok hp1 shared' cs0 /\
    (forall l, mentions sv l -> hget hp1 l = Some (CList cs0)) /\
    (forall hp2, (forall l, mentions sv l -> hget hp2 l = hget hp1 l) -> value_at hp2 sv = v).
Proof.
  intros So Ol.
  assert (Fresh : forall cs, cs = cs0 ->
            hget (hp ++ [CList cs]) (length hp) = Some (CList cs0))
    by (intros cs ->; apply hget_app_new).
  destruct v as [s|o cs|cs]; cbn [alloc_val].
  - intros H. injection H as <- <- <-. exists []. rewrite app_nil_r.
    split; [reflexivity|]. split; [assumption|]. split; [intros l []|]. reflexivity.
  - destruct cs as [|c cs].
    + intros H. injection H as <- <- <-. exists []. rewrite app_nil_r.
      split; [reflexivity|]. split; [assumption|]. split; [intros l []|]. reflexivity.
    + simpl in Ol. destruct shared as [l|]; cbn [alloc].
      * intros H. injection H as <- <- <-. exists []. rewrite app_nil_r. simpl in So.
        split; [reflexivity|]. split; [assumption|]. split.
        -- intros l' Hl. simpl in Hl. now subst l'.
        -- intros hp2 H2. cbn [value_at]. unfold list_at. now rewrite (H2 l eq_refl), So, Ol.
      * intros H. injection H as <- <- <-. exists [CList (c :: cs)].
        split; [reflexivity|]. split; [now apply Fresh|]. split.
        -- intros l' Hl. simpl in Hl. subst l'. now apply Fresh.
        -- intros hp2 H2. cbn [value_at]. unfold list_at.
           now rewrite (H2 _ eq_refl), (Fresh _ Ol), Ol.
  - simpl in Ol. destruct shared as [l|]; cbn [alloc].
    + intros H. injection H as <- <- <-. exists []. rewrite app_nil_r. simpl in So.
      split; [reflexivity|]. split; [assumption|]. split.
      * intros l' Hl. simpl in Hl. now subst l'.
      * intros hp2 H2. cbn [value_at]. unfold list_at. now rewrite (H2 l eq_refl), So, Ol.
    + intros H. injection H as <- <- <-. exists [CList cs].
      split; [reflexivity|]. split; [now apply Fresh|]. split.
      * intros l' Hl. simpl in Hl. subst l'. now apply Fresh.
      * intros hp2 H2. cbn [value_at]. unfold list_at.
        now rewrite (H2 _ eq_refl), (Fresh _ Ol), Ol.
Qed.

Lemma alloc_header_spec cs0 recs : forall hp shared hp' sh,
  shared_ok hp shared cs0 ->
  (forall k r, In (k, r) recs -> one_list cs0 (hval r)) ->
  alloc_header hp recs shared = (hp', sh) ->
  (exists ext, hp' = hp ++ ext) /\ wf hp' sh /\ view hp' sh = recs.
Proof.
  induction recs as [|[k r] rest IH]; intros hp shared hp' sh So Ol.
  - cbn [alloc_header]. intros H. injection H as <- <-.
    split; [exists []; now rewrite app_nil_r|]. split; [intros ? ? []|reflexivity].
  - rewrite alloc_header_cons.
    destruct (alloc_val hp (hval r) shared) as [[hp1 sv] shared'] eqn:Ev.
    destruct (alloc_val_spec _ _ _ cs0 _ _ _ So (Ol k r (or_introl eq_refl)) Ev)
      as [ext1 [-> [So1 [Hm Hval]]]].
    cbn [alloc].
    destruct (alloc_header ((hp ++ ext1) ++ [CRec (hkey r) sv]) rest shared') as [hp3 sh3] eqn:Ea.
    intros H. injection H as <- <-.
    assert (So2 : shared_ok ((hp ++ ext1) ++ [CRec (hkey r) sv]) shared' cs0).
    { destruct shared' as [l|]; [|exact I]. simpl in *.
      rewrite hget_app_l; [assumption|]. eapply hget_lt; eauto. }
    destruct (IH _ _ _ _ So2 (fun k' r' Hin => Ol k' r' (or_intror Hin)) Ea) as [[ext3 ->] [W3 V3]].
    set (hp1 := hp ++ ext1) in *.
    assert (Hrf : hget ((hp1 ++ [CRec (hkey r) sv]) ++ ext3) (length hp1) = Some (CRec (hkey r) sv)).
    { rewrite hget_app_l by (rewrite app_length; cbn; lia). apply hget_app_new. }
    assert (Hl3 : forall l, mentions sv l ->
              hget ((hp1 ++ [CRec (hkey r) sv]) ++ ext3) l = hget hp1 l).
    { intros l Hl. rewrite <- app_assoc. apply hget_app_l. eapply hget_lt. apply (Hm l Hl). }
    split; [|split].
    + exists (ext1 ++ [CRec (hkey r) sv] ++ ext3). unfold hp1. now rewrite <- !app_assoc.
    + intros k2 r2 [H|H]; [|now apply (W3 k2 r2)]. injection H as <- <-.
      exists (hkey r), sv. split; [assumption|]. intros l Hl. exists cs0.
      rewrite (Hl3 l Hl). now apply Hm.
    + cbn [view map fst snd]. rewrite Hrf. fold (view ((hp1 ++ [CRec (hkey r) sv]) ++ ext3) sh3).
      rewrite V3, (Hval _ Hl3). now destruct r.
Qed.

(* a header whose list-valued records agree, allocated on any heap, is
   well-formed and reads back as itself *)
Theorem alloc_header_wf cs0 recs hp hp' sh :
  (forall k r, In (k, r) recs -> one_list cs0 (hval r)) ->
  alloc_header hp recs None = (hp', sh) ->
  wf hp' sh /\ view hp' sh = recs.
Proof.
  intros Ol H. destruct (alloc_header_spec cs0 recs hp None hp' sh I Ol H) as [_ R]. exact R.
Qed.

(* every header from_lines returns satisfies that: its only list-valued
   records are the contigs record and, possibly, the coordinate sort order
   holding the same list *)
Lemma final_one_list K :
  NoDup (map kept_key K) ->
  let cs0 := match kept_value SP_CONTIGS K with Some c => split COMMA c | None => [] end in
  forall k r, In (k, r) (map (final_rec K) K) -> one_list cs0 (hval r).
Proof.
  intros ND cs0 k r Hin. apply in_map_iff in Hin as [[[p k'] v] [E Hin]].
  unfold final_rec, kept_key, kept_val in E. cbn [fst snd] in E. injection E as <- <-.
  cbn [hval]. rewrite interpret_eq.
  destruct (str_eqb k' K_CONTIGS) eqn:Ec.
  - apply str_eqb_eq in Ec. subst k'. cbn [value_of one_list]. unfold cs0.
    change SP_CONTIGS with K_CONTIGS. now rewrite (in_kept_value _ _ _ _ ND Hin).
  - destruct (str_eqb k' K_SORT); [|exact I].
    cbn [value_of]. destruct (so_of_name v) as [o|]; [|exact I].
    unfold order_contigs, cs0.
    destruct (existsb (str_eqb v) SP_COORD_NAMES); [|exact I].
    destruct (kept_value SP_CONTIGS K) as [c|]; [|exact I].
    cbn [one_list]. now destruct (split COMMA c).
Qed.

Section Parsed.
  Context {C : Type} (registry : list (scheme C)).

  Theorem parsed_header_allocates lines m lg l h hp hp' sh :
    header_from_lines registry lines m lg = (l, Ok h) ->
    alloc_header hp (hrecs h) None = (hp', sh) ->
    wf hp' sh /\ view hp' sh = hrecs h.
  Proof.
    intros H Ha. apply (from_lines_ok_recs registry) in H.
    eapply alloc_header_wf; [|exact Ha]. rewrite H.
    apply final_one_list. apply expected_keys_nodup.
  Qed.

  (* C13, last clause: parse a header, build its objects, derive a header from
     it by deepcopy; then no history of mutations of the derived header changes
     what the source reads as (namely the parsed header), and vice versa *)
  Theorem parsed_derived_independent lines m lg l h hp hp0 src hp1 cp :
    header_from_lines registry lines m lg = (l, Ok h) ->
    alloc_header hp (hrecs h) None = (hp0, src) ->
    deepcopy hp0 [] src = (hp1, cp) ->
    view hp1 cp = hrecs h /\
    (forall ms hp2 cp', apply_muts hp1 cp ms = (hp2, cp') -> view hp2 src = hrecs h) /\
    (forall ms hp2 src', apply_muts hp1 src ms = (hp2, src') -> view hp2 cp = hrecs h).
  Proof.
    intros H Ha Hd. destruct (parsed_header_allocates _ _ _ _ _ _ _ _ H Ha) as [W V].
    destruct (deepcopy_spec _ _ _ _ W Hd) as [_ [Vc _]].
    destruct (derived_header_independent _ _ _ _ W Hd) as [I1 I2].
    rewrite V in *. split; [assumption|]. split; assumption.
  Qed.
End Parsed.
