(* OverlapAllele.v - lemmas for C12: the three allele relations, the greedy
   partition of the first slot, the filter of the other slots, the skipping of
   positional groups with an empty first slot. *)
From Coq Require Import Permutation.
From MafVerif Require Import lib.Base model.Overlap spec.SpecOverlap proofs.OverlapStreamFacts.

(* ---------------- relations on lists of text ---------------- *)
Lemma strs_eqb_eq a : forall b, strs_eqb a b = true <-> a = b.
Proof.
  induction a as [|x a IH]; intros [|y b]; simpl; split; try discriminate; try reflexivity.
  - rewrite andb_true_iff, str_eqb_eq, IH. intros [-> ->]. reflexivity.
  - intros E. injection E as -> ->. rewrite andb_true_iff, str_eqb_eq, IH. auto.
Qed.

Lemma str_mem_in x l : str_mem x l = true <-> In x l.
Proof.
  unfold str_mem. rewrite existsb_exists. split.
  - intros (y & Hy & E). apply str_eqb_eq in E. now subst.
  - intros H. exists x. split; [assumption|apply str_eqb_refl].
Qed.

Definition rel_of (t : otype) : relation3 :=
  match t with Equality => REquality | Intersects => RIntersects | Subset => RSubset end.

Lemma compare_by_spec t base other :
  compare_by t base other = true <-> rel (rel_of t) base other.
Proof.
  destruct t; simpl.
  - apply strs_eqb_eq.
  - unfold alts_intersects. rewrite orb_true_iff, existsb_exists, strs_eqb_eq. split.
    + intros [(x & Hx & Hm)|H]; [left|right; assumption]. exists x. apply str_mem_in in Hm. auto.
    + intros [(x & Hb & Ho)|H]; [left|right; assumption]. exists x. rewrite str_mem_in. auto.
  - unfold alts_subset. rewrite forallb_forall. split.
    + intros H x Hx. apply str_mem_in. auto.
    + intros H x Hx. apply str_mem_in. auto.
Qed.

Section Allele.
  Context {R C : Type}.
  Variable truthy : R -> bool.
  Variable cls_cmp : C -> C -> comparison.
  Variable cls_eqb : C -> C -> bool.
  Variable keyf : R -> res (key C).
  Variable rref : R -> str.
  Variable ralts : R -> list str.
  Variable ot : otype.

  Notation should_add := (should_add rref ralts ot).
  Notation place := (place rref ralts ot).
  Notation partition_first := (partition_first truthy rref ralts ot).
  Notation next_group := (next_group truthy cls_cmp cls_eqb keyf).
  Notation first_nonempty := (first_nonempty truthy cls_cmp cls_eqb keyf).
  Notation allele_next := (allele_next truthy cls_cmp cls_eqb keyf rref ralts ot).
  Notation emit := (emit rref ralts ot).
  Notation accepted := (accepted rref ralts (rel_of ot)).
  Notation greedy := (greedy rref ralts (rel_of ot)).
  Notation run_ok := (run_ok truthy cls_cmp cls_eqb keyf).

  (* __should_add is exactly "compatible with some member" *)
  Lemma should_add_spec items other :
    should_add items other = true <-> accepted items other.
  Proof.
    unfold Overlap.should_add, SpecOverlap.accepted, compatible. rewrite existsb_exists. split.
    - intros (item & Hi & E). apply andb_true_iff in E as (E1 & E2).
      exists item. split; [assumption|]. split; [now apply str_eqb_eq|now apply compare_by_spec].
    - intros (item & Hi & E1 & E2). exists item. split; [assumption|].
      apply andb_true_iff. split; [now apply str_eqb_eq|now apply compare_by_spec].
  Qed.

  Lemma should_add_false items other : should_add items other = false <-> ~ accepted items other.
  Proof.
    rewrite <- should_add_spec. destruct (should_add items other); split; congruence.
  Qed.

  Lemma place_some : forall classes item cl',
      place classes item = Some cl' ->
      exists cl1 c cl2, classes = cl1 ++ c :: cl2 /\ cl' = cl1 ++ (c ++ [item]) :: cl2 /\
                        Forall (fun c' => ~ accepted c' item) cl1 /\ accepted c item.
  Proof.
    induction classes as [|c r IH]; intros item cl' E; simpl in E; [discriminate|].
    destruct (should_add c item) eqn:Es.
    - injection E as <-. exists [], c, r. repeat split; [constructor|now apply should_add_spec].
    - destruct (place r item) as [r'|] eqn:Ep; [|discriminate]. injection E as <-.
      destruct (IH item r' Ep) as (cl1 & c0 & cl2 & -> & -> & HF & Ha).
      exists (c :: cl1), c0, cl2. repeat split; try assumption.
      constructor; [now apply should_add_false|assumption].
  Qed.

  Lemma place_none : forall classes item,
      place classes item = None -> Forall (fun c' => ~ accepted c' item) classes.
  Proof.
    induction classes as [|c r IH]; intros item E; simpl in E; [constructor|].
    destruct (should_add c item) eqn:Es; [discriminate|].
    destruct (place r item) eqn:Ep; [discriminate|].
    constructor; [now apply should_add_false|now apply IH].
  Qed.

  (* the `while _iter:` loop computes the greedy partition *)
  Lemma partition_first_greedy : forall it classes,
      Forall (fun x => truthy x = true) it -> greedy classes it (partition_first classes it).
  Proof.
    induction it as [|x xs IH]; intros classes HT; simpl; [constructor|].
    inversion HT as [|? ? Hx HT']; subst.
    destruct (place classes x) as [cl'|] eqn:Ep.
    - destruct (place_some _ _ _ Ep) as (cl1 & c & cl2 & -> & -> & HF & Ha).
      apply greedy_join; [assumption|assumption|]. apply IH. assumption.
    - rewrite Hx. apply greedy_found; [now apply place_none|]. apply IH. assumption.
  Qed.

  (* consequences of being a greedy partition *)
  Lemma greedy_permutation cl it out :
    greedy cl it out -> Permutation (concat out) (concat cl ++ it).
  Proof.
    induction 1 as [cl|cl1 c cl2 x xs out HF Ha Hg IH|cl x xs out HF Hg IH].
    - now rewrite app_nil_r.
    - eapply Permutation_trans; [exact IH|].
      rewrite !concat_app. simpl. rewrite <- !app_assoc. apply Permutation_app_head.
      apply Permutation_app_head. simpl.
      apply Permutation_trans with (x :: concat cl2 ++ xs); [|apply Permutation_middle].
      constructor. apply Permutation_refl.
    - eapply Permutation_trans; [exact IH|].
      rewrite concat_app. simpl. rewrite <- app_assoc. reflexivity.
  Qed.

  Lemma greedy_nonempty cl it out :
    greedy cl it out -> Forall (fun c => c <> []) cl -> Forall (fun c => c <> []) out.
  Proof.
    induction 1 as [cl|cl1 c cl2 x xs out HF Ha Hg IH|cl x xs out HF Hg IH]; intros HN.
    - assumption.
    - apply IH. apply Forall_app in HN as (H1 & H2). inversion H2; subst.
      apply Forall_app. split; [assumption|]. constructor; [|assumption].
      destruct c; discriminate.
    - apply IH. apply Forall_app. split; [assumption|]. constructor; [discriminate|constructor].
  Qed.

  Lemma subseq_refl_nil (l : list R) : subseq [] l.
  Proof. induction l; constructor; assumption. Qed.

  (* every resulting class is an earlier class (or nothing) followed by an
     order-preserving sub-list of the items *)
  Lemma greedy_order cl it out :
    greedy cl it out ->
    Forall (fun o => exists c e, o = c ++ e /\ (c = [] \/ In c cl) /\ subseq e it) out.
  Proof.
    induction 1 as [cl|cl1 c cl2 x xs out HF Ha Hg IH|cl x xs out HF Hg IH].
    - apply Forall_forall. intros o Ho. exists o, []. rewrite app_nil_r.
      repeat split; [right; assumption|constructor].
    - eapply Forall_impl; [|exact IH]. intros o (c' & e & -> & Hc & Hs).
      destruct Hc as [->|Hin].
      + exists [], e. repeat split; [left; reflexivity|now constructor].
      + apply in_app_or in Hin as [Hin|[<-|Hin]].
        * exists c', e. repeat split; [right; apply in_or_app; auto|now constructor].
        * exists c, (x :: e). rewrite <- app_assoc. repeat split;
            [right; apply in_or_app; right; left; reflexivity|now constructor].
        * exists c', e. repeat split; [right; apply in_or_app; right; right; assumption|now constructor].
    - eapply Forall_impl; [|exact IH]. intros o (c' & e & -> & Hc & Hs).
      destruct Hc as [->|Hin].
      + exists [], e. repeat split; [left; reflexivity|now constructor].
      + apply in_app_or in Hin as [Hin|[<-|[]]].
        * exists c', e. repeat split; [right; assumption|now constructor].
        * exists [], (x :: e). repeat split; [left; reflexivity|now constructor].
  Qed.

  (* the first slot, fully characterised *)
  Lemma partition_first_spec s0 :
    Forall (fun x => truthy x = true) s0 ->
    let classes := partition_first [] s0 in
    greedy [] s0 classes /\
    Permutation (concat classes) s0 /\
    Forall (fun c => c <> [] /\ subseq c s0) classes /\
    (s0 <> [] -> classes <> []).
  Proof.
    intros HT classes. pose proof (partition_first_greedy s0 [] HT) as Hg. fold classes in Hg.
    split; [assumption|]. split; [exact (greedy_permutation _ _ _ Hg)|]. split.
    - pose proof (greedy_nonempty _ _ _ Hg (Forall_nil _)) as HN.
      pose proof (greedy_order _ _ _ Hg) as HO.
      apply Forall_forall. intros c Hc. split; [exact (proj1 (Forall_forall _ _) HN c Hc)|].
      destruct (proj1 (Forall_forall _ _) HO c Hc) as (c0 & e & -> & [->|[]] & Hs). exact Hs.
    - intros Hne Hcl. pose proof (greedy_permutation _ _ _ Hg) as Hp. rewrite Hcl in Hp. simpl in Hp.
      apply Permutation_nil in Hp. congruence.
  Qed.

  (* ---------------- emission ---------------- *)
  Fixpoint atake (n : nat) (st : astate R) : list (outcome (list (list R))) * astate R :=
    match n with
    | O => ([], st)
    | S k => let '(st', o) := allele_next st in
             let '(os, st'') := atake k st' in (o :: os, st'')
    end.

  Definition expand (others : list (list R)) (c : list R) : list (list R) :=
    c :: map (filter (should_add c)) others.

  Lemma emit_seq : forall classes ins others,
      atake (length classes) {| a_ins := ins; a_items := Some classes; a_others := others |}
      = (map (fun c => Done (expand others c)) classes,
         {| a_ins := ins; a_items := Some []; a_others := others |}).
  Proof.
    induction classes as [|c r IH]; intros ins others; [reflexivity|].
    simpl length. cbn [atake]. unfold Overlap.allele_next. cbn [a_items items_falsy].
    unfold Overlap.emit. cbn [a_items a_ins a_others]. rewrite IH. reflexivity.
  Qed.

  (* one positional group with a non-empty first slot is emitted as one allele
     group per class of its first slot, in order of creation; each carries, for
     every other input, exactly the records of that input's slot accepted by
     the class; then the iterator is ready for the next positional group *)
  Lemma allele_group_emission st ins' g :
    items_falsy (a_items st) = true ->
    first_nonempty (S (remaining (a_ins st))) (a_ins st) = (ins', Done g) ->
    Forall (fun x => truthy x = true) (hd [] g) ->
    let classes := partition_first [] (hd [] g) in
    atake (length classes) st
    = (map (fun c => Done (expand (tl g) c)) classes,
       {| a_ins := ins'; a_items := Some []; a_others := tl g |}).
  Proof.
    intros Hf Hn HT classes.
    assert (Hne : hd [] g <> []).
    { clear -Hn. revert Hn. generalize (S (remaining (a_ins st))) as fuel. generalize (a_ins st) as ins.
      intros ins fuel; revert ins. induction fuel as [|f IH]; intros ins E; simpl in E; [discriminate|].
      destruct (next_group ins) as [i1 [g1|e|]]; try discriminate.
      destruct g1 as [|[|x s0] others]; try discriminate.
      - eapply IH; eassumption.
      - injection E as _ <-. discriminate. }
    destruct (partition_first_spec (hd [] g) HT) as (_ & _ & _ & Hcl). specialize (Hcl Hne).
    fold classes in Hcl. destruct classes as [|c r] eqn:Ec; [congruence|].
    simpl length. cbn [atake]. unfold Overlap.allele_next at 1. rewrite Hf, Hn.
    fold classes. rewrite Ec. unfold Overlap.emit at 1. cbn [a_items a_ins a_others].
    rewrite emit_seq. reflexivity.
  Qed.

  (* positional groups with an empty first slot are skipped: what
     first_nonempty returns is the first group of the underlying iteration
     whose first slot is non-empty, all groups before it had an empty one *)
  Lemma first_nonempty_spec : forall fuel ins ins' g,
      first_nonempty fuel ins = (ins', Done g) ->
      hd [] g <> [] /\
      exists skipped mid, run_ok ins skipped mid /\
                          Forall (fun g' => g' <> [] /\ hd [] g' = []) skipped /\
                          next_group mid = (ins', Done g).
  Proof.
    induction fuel as [|f IH]; intros ins ins' g E; simpl in E; [discriminate|].
    destruct (next_group ins) as [i1 [g1|e|]] eqn:En; try discriminate.
    destruct g1 as [|[|x s0] others]; try discriminate.
    - destruct (IH _ _ _ E) as (Hne & skipped & mid & Hr & HF & Hn).
      split; [assumption|]. exists (([] :: others) :: skipped), mid.
      split; [econstructor; eassumption|]. split; [|assumption].
      constructor; [split; [discriminate|reflexivity]|assumption].
    - injection E as <- <-. split; [discriminate|]. exists [], ins.
      split; [constructor|]. split; [constructor|assumption].
  Qed.

  (* when the underlying iteration is exhausted so is the allele-aware one *)
  Lemma first_nonempty_stop : forall fuel ins ins',
      first_nonempty fuel ins = (ins', Exc StopIteration) ->
      exists skipped mid, run_ok ins skipped mid /\
                          Forall (fun g' => g' <> [] /\ hd [] g' = []) skipped /\
                          next_group mid = (ins', Exc StopIteration).
  Proof.
    induction fuel as [|f IH]; intros ins ins' E; simpl in E; [discriminate|].
    destruct (next_group ins) as [i1 [g1|e|]] eqn:En; try discriminate.
    - destruct g1 as [|[|x s0] others]; try discriminate.
      destruct (IH _ _ E) as (skipped & mid & Hr & HF & Hn).
      exists (([] :: others) :: skipped), mid.
      split; [econstructor; eassumption|]. split; [|assumption].
      constructor; [split; [discriminate|reflexivity]|assumption].
    - injection E as <- <-. exists [], ins. split; [constructor|]. split; [constructor|assumption].
  Qed.
End Allele.
