(* OverlapStreamFacts.v - counting lemmas for C19 over model/OverlapStream.v
   (reader look-ahead, unsorted write-through, sorter stash/spill) and over the
   `consumed` counters of model/Overlap.v (overlap iteration). *)
From Coq Require Import Permutation.
From MafVerif Require Import lib.Base lib.Str model.Overlap model.OverlapStream.

(* ================================================================ reader *)
Section ReaderFacts.
  Context {H Sch X : Type}.
  Variable parse_header : list str -> res H.
  Variable check_columns : H -> option (list str) -> res Sch.
  Variable parse_record : Sch -> str -> Z -> res X.

  Definition is_hdr (l : str) : bool := startswith (rstrip_crlf l) [HASH].
  Local Opaque startswith rstrip_crlf.
  (* number of leading header lines *)
  Fixpoint hcount (ls : list str) : nat :=
    match ls with
    | [] => 0
    | l :: r => if is_hdr l then S (hcount r) else 0
    end.

  (* the reader is `c` lines into `lines`, its look-ahead being line c (1-based) *)
  Definition RInv (lines : list str) (r : reader Sch) : Prop :=
    let c := s_consumed (r_src r) in
    (c <= length lines)%nat /\ s_rest (r_src r) = skipn c lines /\
    r_line_number r = Z.of_nat c /\
    match r_next_line r with
    | None => c = length lines
    | Some l => (1 <= c)%nat /\ exists raw, nth_error lines (c - 1) = Some raw /\ l = rstrip_crlf raw
    end.

  Lemma skipn_mid (pre : list str) l r : skipn (S (length pre)) (pre ++ l :: r) = r.
  Proof. induction pre; simpl; auto. Qed.
  Lemma nth_error_mid (pre : list str) l r : nth_error (pre ++ l :: r) (length pre) = Some l.
  Proof. induction pre; simpl; auto. Qed.

  Lemma skipn_S_tl (n : nat) : forall (l : list str), skipn (S n) l = tl (skipn n l).
  Proof. induction n; intros [|x l]; simpl; auto. apply (IHn l). Qed.

  Lemma header_loop_spec : forall rest pre n ln acc s nl ln' hdr,
      header_loop rest n ln acc = (s, nl, ln', hdr) ->
      n = length pre -> ln = Z.of_nat n ->
      let lines := pre ++ rest in
      let c := s_consumed s in
      c = Nat.min (length lines) (n + hcount rest + 1) /\
      s_rest s = skipn c lines /\ ln' = Z.of_nat c /\
      match nl with
      | None => c = length lines /\ hcount rest = length rest
      | Some l => (hcount rest < length rest)%nat /\ c = (n + hcount rest + 1)%nat /\
                  exists raw, nth_error lines (c - 1) = Some raw /\ l = rstrip_crlf raw
      end.
  Proof.
    induction rest as [|l r IH]; intros pre n ln acc s nl ln' hdr E Hn Hln; simpl in E.
    - injection E as <- <- <- <-. simpl. rewrite app_nil_r. subst n ln.
      repeat split; try lia. now rewrite skipn_all.
    - simpl hcount. unfold is_hdr. destruct (startswith (rstrip_crlf l) [HASH]) eqn:Eh.
      + specialize (IH (pre ++ [l]) (S n) (ln + 1) _ _ _ _ _ E).
        rewrite app_length in IH. simpl in IH.
        assert (E1 : S n = (length pre + 1)%nat) by lia.
        assert (E2 : ln + 1 = Z.of_nat (S n)) by lia.
        specialize (IH E1 E2). rewrite <- app_assoc in IH. simpl in IH.
        destruct IH as (Hc & Hr & Hl & Hm). simpl.
        replace (n + S (hcount r) + 1)%nat with (S n + hcount r + 1)%nat by lia.
        repeat split; try assumption.
        destruct nl as [l0|].
        * destruct Hm as (A1 & A2 & A3). repeat split; try lia. exact A3.
        * destruct Hm as (A1 & A2). split; [assumption|lia].
      + injection E as <- <- <- <-. subst n ln. cbn [s_consumed s_rest].
        rewrite app_length. cbn [length].
        assert (Hmin : Nat.min (length pre + S (length r)) (length pre + 0 + 1) = S (length pre))
          by (rewrite Nat.min_r; lia).
        rewrite Hmin. split; [reflexivity|]. split; [now rewrite skipn_mid|]. split; [lia|].
        split; [lia|]. split; [lia|].
        exists l. split; [|reflexivity].
        replace (S (length pre) - 1)%nat with (length pre) by lia. apply nth_error_mid.
  Qed.

  Lemma pull_spec lines s ln s' nl' ln' :
    pull s ln = (s', nl', ln') ->
    (s_consumed s <= length lines)%nat -> s_rest s = skipn (s_consumed s) lines -> ln = Z.of_nat (s_consumed s) ->
    let c := s_consumed s' in
    c = Nat.min (length lines) (S (s_consumed s)) /\ s_rest s' = skipn c lines /\ ln' = Z.of_nat c /\
    match nl' with
    | None => c = length lines /\ c = s_consumed s
    | Some l => c = S (s_consumed s) /\ exists raw, nth_error lines (c - 1) = Some raw /\ l = rstrip_crlf raw
    end.
  Proof.
    unfold pull. intros E Hle Hr Hln. destruct (s_rest s) as [|l r] eqn:Er.
    - injection E as <- <- <-. simpl.
      assert (length lines <= s_consumed s)%nat.
      { destruct (Nat.le_gt_cases (length lines) (s_consumed s)); [assumption|].
        assert (length (skipn (s_consumed s) lines) = 0%nat) by (rewrite <- Hr; reflexivity).
        rewrite skipn_length in H1. lia. }
      repeat split; try lia; try assumption. congruence.
    - injection E as <- <- <-. cbn [s_consumed s_rest].
      assert (Hlen : length (skipn (s_consumed s) lines) = S (length r)) by (rewrite <- Hr; reflexivity).
      rewrite skipn_length in Hlen.
      assert (Hnth : nth_error lines (s_consumed s) = Some l).
      { rewrite <- (firstn_skipn (s_consumed s) lines) at 1.
        rewrite nth_error_app2 by (rewrite firstn_length; lia).
        rewrite firstn_length, Nat.min_l by lia. rewrite Nat.sub_diag, <- Hr. reflexivity. }
      repeat split; try lia.
      + rewrite skipn_S_tl, <- Hr. reflexivity.
      + exists l. split; [|reflexivity]. now replace (S (s_consumed s) - 1)%nat with (s_consumed s) by lia.
  Qed.

  (* after __init__: header lines, the column line and one look-ahead line *)
  Lemma reader_init_pulled lines s r :
    reader_init parse_header check_columns lines = (s, Ok r) ->
    s = r_src r /\ RInv lines r /\
    s_consumed (r_src r) = Nat.min (length lines) (hcount lines + 2) /\
    (r_next_line r = None \/ s_consumed (r_src r) = (hcount lines + 2)%nat).
  Proof.
    unfold reader_init. destruct (header_loop lines 0 0 []) as [[[s0 nl] ln] hdr] eqn:E.
    pose proof (header_loop_spec lines [] 0%nat 0 [] _ _ _ _ E eq_refl eq_refl) as Hs.
    simpl in Hs. destruct Hs as (Hc & Hr & Hl & Hm).
    destruct (parse_header hdr) as [h|e]; [|discriminate].
    destruct nl as [l|].
    - destruct Hm as (A1 & A2 & raw & A3 & A4).
      destruct (pull s0 ln) as [[s' nl'] ln''] eqn:Ep.
      assert (Hle : (s_consumed s0 <= length lines)%nat) by lia.
      pose proof (pull_spec lines _ _ _ _ _ Ep Hle Hr Hl) as (B1 & B2 & B3 & B4).
      destruct (check_columns h (Some (split TAB l))) as [sch|e]; [|discriminate].
      intros Ei. injection Ei as <- <-. simpl. split; [reflexivity|]. split.
      + unfold RInv. simpl. repeat split; try assumption; try lia.
        destruct nl' as [l'|].
        * destruct B4 as (C1 & C2). split; [lia|exact C2].
        * destruct B4 as (C1 & C2). exact C1.
      + split; [rewrite B1, A2; f_equal; lia|].
        destruct nl' as [l'|]; [right; destruct B4; lia|left; reflexivity].
    - destruct Hm as (A1 & A2).
      destruct (check_columns h None) as [sch|e]; [|discriminate].
      intros Ei. injection Ei as <- <-. simpl. split; [reflexivity|]. split.
      + unfold RInv. simpl. repeat split; try assumption; lia.
      + split; [|left; reflexivity].
        rewrite A1. assert (hcount lines <= length lines)%nat by lia. rewrite Nat.min_l; lia.
  Qed.


  Lemma hcount_le ls : (hcount ls <= length ls)%nat.
  Proof. induction ls as [|l r IH]; simpl; [lia|]. destruct (is_hdr l); lia. Qed.

  (* a failing constructor has not pulled more either *)
  Lemma reader_init_bound lines s o :
    reader_init parse_header check_columns lines = (s, o) ->
    (s_consumed s <= hcount lines + 2)%nat.
  Proof.
    unfold reader_init. destruct (header_loop lines 0 0 []) as [[[s0 nl] ln] hdr] eqn:E.
    pose proof (header_loop_spec lines [] 0%nat 0 [] _ _ _ _ E eq_refl eq_refl) as Hs.
    simpl in Hs. destruct Hs as (Hc & Hr & Hl & Hm).
    destruct (parse_header hdr) as [h|e]; [|intros Ei; injection Ei as <- <-; lia].
    destruct nl as [l|].
    - destruct Hm as (A1 & A2 & _).
      destruct (pull s0 ln) as [[s' nl'] ln''] eqn:Ep.
      assert (Hle : (s_consumed s0 <= length lines)%nat) by lia.
      pose proof (pull_spec lines _ _ _ _ _ Ep Hle Hr Hl) as (B1 & _).
      destruct (check_columns h (Some (split TAB l))); intros Ei; injection Ei as <- <-; simpl; lia.
    - destruct (check_columns h None); intros Ei; injection Ei as <- <-; simpl; lia.
  Qed.

  (* one __next__: the record is the look-ahead line, exactly one further
     line is pulled (none at the end of the input, none when parsing raises) *)
  Lemma reader_next_spec lines r r' o :
    RInv lines r -> reader_next parse_record r = (r', o) ->
    match o with
    | Ok x =>
      let c := s_consumed (r_src r) in
      (1 <= c)%nat /\
      (exists raw, nth_error lines (c - 1) = Some raw /\
                   parse_record (r_scheme r) (rstrip_crlf raw) (Z.of_nat c) = Ok x) /\
      s_consumed (r_src r') = Nat.min (length lines) (S c) /\ RInv lines r' /\
      (r_next_line r' = None \/ s_consumed (r_src r') = S c)
    | Raise _ => r' = r
    end.
  Proof.
    unfold reader_next. intros (Hle & Hr & Hl & Hm) E.
    destruct (r_next_line r) as [l|] eqn:En; [|injection E as <- <-; reflexivity].
    destruct Hm as (H1 & raw & Hn & ->). rewrite Hl in E.
    destruct (parse_record (r_scheme r) (rstrip_crlf raw) (Z.of_nat (s_consumed (r_src r)))) as [x|e] eqn:Ep;
      [|injection E as <- <-; reflexivity].
    rewrite <- Hl in E.
    destruct (pull (r_src r) (r_line_number r)) as [[s' nl'] ln'] eqn:Epl.
    injection E as <- <-.
    pose proof (pull_spec lines _ _ _ _ _ Epl Hle Hr Hl) as (B1 & B2 & B3 & B4).
    simpl. split; [assumption|]. split; [exists raw; split; assumption|]. split; [assumption|].
    split.
    - unfold RInv. simpl. repeat split; try assumption; try lia.
      destruct nl' as [l'|].
      + destruct B4 as (C1 & C2). split; [lia|exact C2].
      + destruct B4 as (C1 & C2). exact C1.
    - destruct nl' as [l'|]; [right; tauto|left; reflexivity].
  Qed.

  Lemma reader_take_at_end k r :
    r_next_line r = None -> snd (reader_take parse_record k r) = [].
  Proof.
    intros Hn. destruct k; simpl; [reflexivity|]. unfold reader_next. rewrite Hn. reflexivity.
  Qed.

  (* the j-th record returned (0-based) is physical line hcount+2+j (1-based);
     when it is returned exactly min(len, that+1) lines have been pulled *)
  Lemma reader_take_spec lines : forall k r r' out,
      RInv lines r -> reader_take parse_record k r = (r', out) ->
      forall j x c, nth_error out j = Some (x, c) ->
        let at_ := (s_consumed (r_src r) + j)%nat in
        c = Nat.min (length lines) (S at_) /\ (at_ <= length lines)%nat /\
        exists raw, nth_error lines (at_ - 1) = Some raw /\
                    parse_record (r_scheme r) (rstrip_crlf raw) (Z.of_nat at_) = Ok x.
  Proof.
    induction k as [|k IH]; intros r r' out HI E j x c Hj; simpl in E.
    - injection E as <- <-. destruct j; discriminate.
    - destruct (reader_next parse_record r) as [r1 o] eqn:En.
      pose proof (reader_next_spec lines r r1 o HI En) as Hs.
      destruct o as [x1|e]; [|injection E as <- <-; destruct j; discriminate].
      destruct (reader_take parse_record k r1) as [r2 xs] eqn:Et. injection E as <- <-.
      destruct Hs as (H1 & (raw & Hn & Hp) & Hc & HI1 & Hend).
      destruct j as [|j].
      + simpl in Hj. injection Hj as <- <-. rewrite Nat.add_0_r.
        split; [assumption|]. split; [destruct HI; lia|]. exists raw. split; assumption.
      + simpl in Hj. specialize (IH r1 r2 xs HI1 Et j x c Hj). simpl in IH.
        assert (Hsch : r_scheme r1 = r_scheme r).
        { unfold reader_next in En. destruct (r_next_line r); [|injection En as <- _; reflexivity].
          destruct (parse_record _ _ _); [|injection En as <- _; reflexivity].
          destruct (pull _ _) as [[? ?] ?]. injection En as <- _. reflexivity. }
        rewrite Hsch in IH.
        destruct IH as (A1 & A2 & raw' & A3 & A4).
        assert (Hlt : (S (s_consumed (r_src r)) <= length lines)%nat).
        { destruct Hend as [Hend|Hend].
          - pose proof (reader_take_at_end k r1 Hend) as Hnil. rewrite Et in Hnil. simpl in Hnil.
            subst xs. destruct j; discriminate.
          - destruct HI1 as (Hle1 & _). lia. }
        rewrite Nat.min_r in Hc by lia. rewrite Hc in *.
        replace (s_consumed (r_src r) + S j)%nat with (S (s_consumed (r_src r)) + j)%nat by lia.
        split; [assumption|]. split; [assumption|]. exists raw'. split; assumption.
  Qed.
  (* the whole interaction: construct, then call next() k times *)
  Lemma reader_lookahead lines s r k r' out j x c :
    reader_init parse_header check_columns lines = (s, Ok r) ->
    reader_take parse_record k r = (r', out) -> nth_error out j = Some (x, c) ->
    let at_ := (hcount lines + 2 + j)%nat in      (* physical number of the line of record j *)
    (at_ <= length lines)%nat /\ c = Nat.min (length lines) (S at_) /\ (c <= at_ + 1)%nat /\
    exists raw, nth_error lines (at_ - 1) = Some raw /\
                parse_record (r_scheme r) (rstrip_crlf raw) (Z.of_nat at_) = Ok x.
  Proof.
    intros Hi Ht Hj. destruct (reader_init_pulled _ _ _ Hi) as (_ & HI & Hc & Hend).
    destruct Hend as [Hend|Hend].
    - pose proof (reader_take_at_end k r Hend) as Hnil. rewrite Ht in Hnil. simpl in Hnil. subst out.
      destruct j; discriminate.
    - pose proof (reader_take_spec lines k r r' out HI Ht j x c Hj) as Hs. simpl in Hs.
      rewrite Hend in Hs. destruct Hs as (A1 & A2 & A3). simpl. repeat split; try assumption. lia.
  Qed.
End ReaderFacts.

(* ================================================================ writer *)
Section WriterFacts.
  Context {Rec : Type}.
  Variable column_line : Rec -> str.
  Variable render : Rec -> str.
  Variable validate : Rec -> res unit.
  Variable wants_sorter : res bool.
  Notation iadd := (writer_iadd column_line render validate wants_sorter).

  (* the column line is written at most once, immediately before the first record *)
  Definition col_prefix (w : writer Rec) (r : Rec) (pre : list str) : Prop :=
    (w_scheme w = true /\ pre = []) \/ (w_scheme w = false /\ pre = [column_line r ++ [LF]]).

  (* a write call that returns normally on a writer without sorter has put the
     record's line on the handle, as the last thing written *)
  Lemma iadd_unsorted_emits w r w' :
    iadd w r = (w', Ok tt) -> w_sorter w' = None ->
    exists pre, col_prefix w r pre /\ w_out w' = w_out w ++ pre ++ [render r ++ [LF]].
  Proof.
    unfold writer_iadd. intros E Hs.
    destruct (w_scheme w) eqn:Esch.
    - destruct (validate r); [|discriminate].
      destruct (w_sorter w) as [held|] eqn:Eso; injection E as <-; simpl in *; [discriminate|].
      exists []. split; [left; auto|reflexivity].
    - destruct wants_sorter as [[|]|e]; simpl in E; try discriminate;
        (destruct (validate r); [|discriminate]); injection E as <-; simpl in *; try discriminate.
      exists [column_line r ++ [LF]]. split; [right; auto|]. now rewrite <- app_assoc.
  Qed.

  (* whatever happens, output already written is never changed *)
  Lemma iadd_output_grows w r w' o :
    iadd w r = (w', o) -> exists more, w_out w' = w_out w ++ more.
  Proof.
    unfold writer_iadd. intros E.
    destruct (w_scheme w).
    - destruct (validate r); [|injection E as <- _; exists []; now rewrite app_nil_r].
      destruct (w_sorter w); injection E as <- _; simpl; [exists []; now rewrite app_nil_r|eauto].
    - destruct wants_sorter as [[|]|e]; simpl in E;
        try (injection E as <- _; simpl; eauto; fail);
        (destruct (validate r); injection E as <- _; simpl; eauto).
      rewrite <- app_assoc. eauto.
  Qed.

  (* a failed call has not written the record *)
  Lemma iadd_failed_writes_no_record w r w' e :
    iadd w r = (w', Raise e) ->
    w_out w' = w_out w \/ (w_scheme w = false /\ w_out w' = w_out w ++ [column_line r ++ [LF]]).
  Proof.
    unfold writer_iadd. intros E.
    destruct (w_scheme w).
    - destruct (validate r); [|injection E as <- _; now left].
      destruct (w_sorter w); discriminate.
    - right. split; [reflexivity|].
      destruct wants_sorter as [[|]|e0]; simpl in E;
        try (injection E as <- _; reflexivity);
        (destruct (validate r); [discriminate|injection E as <- _; reflexivity]).
  Qed.
End WriterFacts.

(* ================================================================ sorter *)
Section SorterFacts.
  Context {X E : Type}.
  Variable entry_of : X -> res E.
  Variable sortf : list E -> list E.
  Hypothesis sortf_perm : forall l, Permutation (sortf l) l.

  Notation add := (sorter_add entry_of sortf).
  Notation adds := (sorter_adds entry_of sortf).

  (* entries of the objects whose key/encoding succeeded *)
  Definition entries (xs : list X) : list E :=
    flat_map (fun x => match entry_of x with Ok e => [e] | Raise _ => [] end) xs.

  Definition SInv (m : nat) (done : list E) (s : sorter E) : Prop :=
    cap s = m /\ (length (stash s) < m)%nat /\
    Forall (fun c => length c = m) (chunks s) /\
    Permutation (concat (chunks s) ++ stash s) done.

  Lemma sortf_length l : length (sortf l) = length l.
  Proof. apply Permutation_length, sortf_perm. Qed.

  Lemma add_inv m done s x :
    SInv m done s ->
    match entry_of x with
    | Ok e => snd (add s x) = Ok tt /\ SInv m (done ++ [e]) (fst (add s x))
    | Raise err => add s x = (s, Raise err)
    end.
  Proof.
    intros (Hc & Hl & Hf & Hp). unfold sorter_add.
    destruct (entry_of x) as [e|err]; [|reflexivity].
    rewrite Hc. destruct (Nat.leb_spec m (length (stash s))); [lia|].
    simpl. rewrite app_length. simpl.
    destruct (Nat.eqb_spec (length (stash s) + 1) m) as [Heq|Hne].
    - unfold spill. simpl. destruct (stash s ++ [e]) eqn:Est.
      { apply (f_equal (@length E)) in Est. rewrite app_length in Est. simpl in Est. lia. }
      rewrite <- Est. simpl. split; [reflexivity|]. unfold SInv. simpl.
      split; [reflexivity|]. split; [lia|]. split.
      + apply Forall_app. split; [assumption|]. constructor; [|constructor].
        rewrite sortf_length, app_length. simpl. lia.
      + rewrite concat_app. simpl. rewrite !app_nil_r.
        apply Permutation_trans with (concat (chunks s) ++ (stash s ++ [e])).
        * apply Permutation_app_head, sortf_perm.
        * rewrite app_assoc. now apply Permutation_app_tail.
    - simpl. split; [reflexivity|]. unfold SInv. simpl.
      split; [reflexivity|]. split; [rewrite app_length; simpl; lia|]. split; [assumption|].
      rewrite app_assoc. now apply Permutation_app_tail.
  Qed.

  Lemma adds_inv m : forall xs done s,
      SInv m done s -> SInv m (done ++ entries xs) (adds s xs).
  Proof.
    induction xs as [|x xs IH]; intros done s HI; simpl.
    - now rewrite app_nil_r.
    - pose proof (add_inv m done s x HI) as Hs. unfold sorter_adds in *. simpl.
      destruct (entry_of x) as [e|err] eqn:Ee.
      + destruct Hs as (_ & HI'). specialize (IH _ _ HI').
        rewrite <- app_assoc in IH. exact IH.
      + rewrite Hs. simpl. apply IH. exact HI.
  Qed.

  Lemma new_inv m : (1 <= m)%nat -> SInv m [] (sorter_new m).
  Proof. intros. unfold SInv. simpl. repeat split; [lia|constructor|constructor]. Qed.

  (* after any sequence of adds to a sorter of capacity m >= 1: fewer than m
     entries are in memory, every spill file holds exactly m entries, and the
     spilled entries together with the ones in memory are the entries added *)
  Lemma sorter_adds_spec m xs :
    (1 <= m)%nat ->
    let s := adds (sorter_new m) xs in
    (length (stash s) < m)%nat /\
    Forall (fun c => length c = m) (chunks s) /\
    Permutation (concat (chunks s) ++ stash s) (entries xs) /\
    (length (entries xs) - length (concat (chunks s)) < m)%nat.
  Proof.
    intros Hm s. pose proof (adds_inv m xs [] (sorter_new m) (new_inv m Hm)) as (H1 & H2 & H3 & H4).
    simpl in H4. fold s in H1, H2, H3, H4. repeat split; try assumption.
    apply Permutation_length in H4. rewrite app_length in H4. lia.
  Qed.

  (* add never fails for lack of room when the capacity is at least 1 *)
  Lemma sorter_add_no_index_error m xs x :
    (1 <= m)%nat -> snd (add (adds (sorter_new m) xs) x) <> Raise IndexError \/
                    exists err, entry_of x = Raise err.
  Proof.
    intros Hm. pose proof (adds_inv m xs [] (sorter_new m) (new_inv m Hm)) as HI.
    pose proof (add_inv m _ _ x HI) as Hs. destruct (entry_of x) as [e|err].
    - left. destruct Hs as (-> & _). discriminate.
    - right. eauto.
  Qed.
End SorterFacts.

(* ================================================================ overlap *)
Section OverlapConsumption.
  Context {R C : Type}.
  Variable truthy : R -> bool.
  Variable cls_cmp : C -> C -> comparison.
  Variable cls_eqb : C -> C -> bool.
  Variable keyf : R -> res (key C).
  (* building a key may fail (unknown contig) but never with StopIteration *)
  Hypothesis keyf_no_stop : forall r, keyf r <> Raise StopIteration.

  Notation enf_next := (enf_next truthy cls_cmp keyf).
  Notation update_peek := (update_peek truthy cls_cmp keyf).
  Notation peek_next := (peek_next truthy cls_cmp keyf).
  Notation sweep := (sweep truthy cls_cmp cls_eqb keyf).
  Notation group_loop := (group_loop truthy cls_cmp cls_eqb keyf).
  Notation next_group := (next_group truthy cls_cmp cls_eqb keyf).
  Notation init_inputs := (init_inputs truthy cls_cmp keyf).
  Notation head_keys := (head_keys truthy keyf).

  Definition peeked (i : input R) : nat := match peek i with Some _ => 1 | None => 0 end.
  (* the input has handed out n records and pulled exactly its look-ahead beyond them *)
  Definition Acc (n : nat) (i : input R) : Prop := consumed i = (n + peeked i)%nat.
  Definition CAcc (b : nat) (c : cell R C) : Prop := Acc (b + length (c_slot c)) (c_in c).

  Lemma enf_next_consumed i i' o :
    enf_next i = (i', o) ->
    peek i' = peek i /\
    match o with
    | Ok _ => consumed i' = S (consumed i)
    | Raise e => e = StopIteration -> consumed i' = consumed i
    end.
  Proof.
    unfold Overlap.enf_next. intros E. destruct (rest i) as [|rec tl].
    - injection E as <- <-. auto.
    - destruct (last_rec i) as [l|]; [|injection E as <- <-; auto].
      destruct (truthy l); [|injection E as <- <-; auto].
      destruct (keyf rec) as [rk|e] eqn:E1.
      2:{ injection E as <- <-. simpl. split; [reflexivity|]. intros ->. now apply keyf_no_stop in E1. }
      destruct (keyf l) as [lk|e] eqn:E2.
      2:{ injection E as <- <-. simpl. split; [reflexivity|]. intros ->. now apply keyf_no_stop in E2. }
      destruct (key_lt cls_cmp rk lk); injection E as <- <-; simpl; auto. split; [reflexivity|discriminate].
  Qed.

  Lemma update_peek_consumed i i' :
    update_peek i = (i', Ok tt) -> consumed i' = (consumed i + peeked i')%nat.
  Proof.
    unfold Overlap.update_peek. destruct (enf_next i) as [i1 o] eqn:E.
    pose proof (enf_next_consumed _ _ _ E) as (Hp & Hc).
    destruct o as [r|e].
    - intros Ei. injection Ei as <-. unfold peeked. simpl. lia.
    - destruct e; try discriminate. intros Ei. injection Ei as <-. unfold peeked. simpl.
      rewrite Hc by reflexivity. lia.
  Qed.

  Lemma peek_next_acc n i i' r :
    Acc n i -> peek_next i = (i', Ok r) -> Acc (S n) i'.
  Proof.
    unfold Overlap.peek_next, Acc. intros HA E. unfold peeked in HA at 1.
    destruct (peek i) as [p|]; [|discriminate].
    destruct (update_peek i) as [i1 [[]|e]] eqn:Eu; [|discriminate].
    injection E as <- <-. rewrite (update_peek_consumed _ _ Eu). lia.
  Qed.

  Lemma init_inputs_acc : forall xss ins,
      init_inputs xss = Ok ins -> Forall (Acc 0) ins /\ length ins = length xss.
  Proof.
    induction xss as [|xs r IH]; intros ins E; simpl in E.
    - injection E as <-. split; [constructor|reflexivity].
    - destruct (update_peek (fresh xs)) as [i [[]|e]] eqn:Eu; [|discriminate].
      destruct (init_inputs r) as [is|e]; [|discriminate]. injection E as <-.
      destruct (IH is eq_refl) as (H1 & H2). split; [|simpl; now rewrite H2].
      constructor; [|assumption]. unfold Acc. rewrite (update_peek_consumed _ _ Eu). reflexivity.
  Qed.

  Lemma sweep_acc : forall cells bases mk added cells' mk' added',
      Forall2 CAcc bases cells ->
      sweep mk added cells = (cells', mk', added', None) ->
      Forall2 CAcc bases cells'.
  Proof.
    induction cells as [|c tl IH]; intros bases mk added cells' mk' added' HF E; simpl in E.
    - injection E as <- _ _. assumption.
    - inversion HF as [|b ? bt ? Hc Ht]; subst.
      assert (Hskip : forall mk0 added0 c0, CAcc b c0 ->
                 (let '(tl', mk1, added1, ex) := sweep mk0 added0 tl in (c0 :: tl', mk1, added1, ex))
                 = (cells', mk', added', None) -> Forall2 CAcc (b :: bt) cells').
      { intros mk0 added0 c0 Hc0 E0. destruct (sweep mk0 added0 tl) as [[[tl' mk1] added1] ex] eqn:Es.
        injection E0 as <- <- <- ->. constructor; [assumption|]. eapply IH; eassumption. }
      destruct (peek (c_in c)) as [rec|] eqn:Ep; [|eapply Hskip; eassumption].
      destruct (truthy rec); [|eapply Hskip; eassumption].
      destruct (match c_key c with Some k => Ok k | None => keyf rec end) as [k|e]; [|discriminate].
      destruct (overlaps cls_eqb mk k).
      + destruct (peek_next (c_in c)) as [i' [next_rec|e]] eqn:En; [|discriminate].
        eapply Hskip; [|exact E]. unfold CAcc in *. simpl. rewrite app_length. simpl.
        replace (b + (length (c_slot c) + 1))%nat with (S (b + length (c_slot c))) by lia.
        eapply peek_next_acc; eassumption.
      + eapply Hskip; [|exact E]. exact Hc.
  Qed.

  Lemma group_loop_acc : forall fuel bases mk cells cells',
      Forall2 CAcc bases cells ->
      group_loop fuel mk cells = (cells', Done tt) ->
      Forall2 CAcc bases cells'.
  Proof.
    induction fuel as [|f IH]; intros bases mk cells cells' HF E; simpl in E; [discriminate|].
    destruct (sweep mk false cells) as [[[c1 mk1] added1] ex] eqn:Es.
    destruct ex as [e|]; [discriminate|].
    pose proof (sweep_acc _ _ _ _ _ _ _ HF Es) as HF1.
    destruct added1.
    - eapply IH; eassumption.
    - injection E as <-. assumption.
  Qed.

  Lemma head_keys_length : forall ins ks, head_keys ins = Ok ks -> length ks = length ins.
  Proof.
    induction ins as [|i r IH]; intros ks E; simpl in E.
    - injection E as <-. reflexivity.
    - destruct (to_sort_key truthy keyf (peek i)); [|discriminate].
      destruct (head_keys r) as [ks'|]; [|discriminate]. injection E as <-. simpl. now rewrite (IH ks').
  Qed.

  Lemma mk_cells_acc : forall ins ks bases,
      length ks = length ins -> Forall2 Acc bases ins -> Forall2 CAcc bases (mk_cells ins ks).
  Proof.
    induction ins as [|i r IH]; intros ks bases Hl HF; inversion HF; subst; simpl.
    - constructor.
    - destruct ks as [|k kr]; [discriminate|]. constructor.
      + unfold CAcc. simpl. now rewrite Nat.add_0_r.
      + apply IH; [simpl in Hl; lia|assumption].
  Qed.

  (* one __next__ that returns a group: every input has pulled exactly the
     records of its slot, keeping one look-ahead *)
  Lemma next_group_acc bases ins ins' g :
    Forall2 Acc bases ins -> next_group ins = (ins', Done g) ->
    exists cells, ins' = map c_in cells /\ g = map c_slot cells /\ Forall2 CAcc bases cells.
  Proof.
    unfold Overlap.next_group. intros HF E.
    destruct (head_keys ins) as [keys|e] eqn:Eh; [|discriminate].
    destruct (present keys) as [|k0 ks]; [discriminate|].
    destruct (group_loop (S (remaining ins)) (min_from cls_cmp k0 ks) (mk_cells ins keys)) as [cells o] eqn:Eg.
    destruct o as [[]|e|]; try discriminate. injection E as <- <-.
    exists cells. split; [reflexivity|]. split; [reflexivity|].
    eapply group_loop_acc; [|exact Eg]. apply mk_cells_acc; [|assumption].
    eapply head_keys_length; eassumption.
  Qed.

  (* histories of successful calls *)
  Inductive run_ok : list (input R) -> list (list (list R)) -> list (input R) -> Prop :=
  | run_nil ins : run_ok ins [] ins
  | run_cons ins g ins' gs ins'' :
      next_group ins = (ins', Done g) -> run_ok ins' gs ins'' -> run_ok ins (g :: gs) ins''.

  (* records of input k emitted by the groups *)
  Fixpoint emitted (k : nat) (gs : list (list (list R))) : nat :=
    match gs with
    | [] => 0
    | g :: r => length (nth k g []) + emitted k r
    end.

  Lemma run_ok_acc : forall ins gs ins',
      run_ok ins gs ins' -> forall bases, Forall2 Acc bases ins ->
      forall k i, nth_error ins' k = Some i ->
      exists b, nth_error bases k = Some b /\ consumed i = (b + emitted k gs + peeked i)%nat.
  Proof.
    induction 1 as [ins|ins g ins' gs ins'' Hn Hr IH]; intros bases HF k i Hk.
    - revert k Hk. induction HF as [|b i0 bt it Hb Ht IHF]; intros k Hk.
      + destruct k; discriminate.
      + destruct k as [|k]; simpl in *.
        * injection Hk as <-. exists b. split; [reflexivity|]. unfold Acc in Hb. lia.
        * apply IHF. assumption.
    - destruct (next_group_acc _ _ _ _ HF Hn) as (cells & -> & -> & HC).
      set (bases' := map (fun bc => (fst bc + length (c_slot (snd bc)))%nat) (combine bases cells)).
      assert (HF' : Forall2 Acc bases' (map c_in cells)).
      { subst bases'. clear -HC. induction HC; simpl; constructor; assumption. }
      destruct (IH bases' HF' k i Hk) as (b' & Hb' & Hc).
      subst bases'. rewrite nth_error_map in Hb'.
      destruct (nth_error (combine bases cells) k) as [[b c]|] eqn:Ec; [|discriminate].
      simpl in Hb'. injection Hb' as <-.
      assert (Hb : nth_error bases k = Some b /\ nth_error cells k = Some c).
      { clear -Ec. revert bases cells Ec. induction k; intros [|b0 bt] [|c0 ct] Ec; simpl in *; try discriminate.
        - injection Ec as <- <-. auto.
        - apply IHk. assumption. }
      destruct Hb as (Hb1 & Hb2). exists b. split; [assumption|]. simpl.
      assert (Hs : nth k (map c_slot cells) [] = c_slot c).
      { clear -Hb2. revert cells Hb2. induction k; intros [|c0 ct] Hb2; simpl in *; try discriminate.
        - now injection Hb2 as <-.
        - apply IHk. assumption. }
      rewrite Hs. lia.
  Qed.

  (* at every point between calls of an error-free history, input k has been
     pulled exactly (records of k emitted so far) + (1 if a look-ahead record
     is held), hence never more than one record beyond the emitted groups *)
  Lemma overlap_consumption xss ins0 gs ins k i :
    init_inputs xss = Ok ins0 -> run_ok ins0 gs ins -> nth_error ins k = Some i ->
    consumed i = (emitted k gs + peeked i)%nat /\ (consumed i <= emitted k gs + 1)%nat.
  Proof.
    intros Hi Hr Hk. destruct (init_inputs_acc _ _ Hi) as (HA & Hl).
    assert (HF : Forall2 Acc (repeat 0%nat (length ins0)) ins0).
    { clear -HA. induction HA; simpl; constructor; assumption. }
    destruct (run_ok_acc _ _ _ Hr _ HF k i Hk) as (b & Hb & Hc).
    assert (b = 0%nat) by (apply nth_error_In, repeat_spec in Hb; assumption). subst b.
    split; [lia|]. unfold peeked in *. destruct (peek i); lia.
  Qed.

  (* within a call: the same bound for the slot being filled *)
  Lemma overlap_consumption_within bases cells mk added cells' mk' added' :
    Forall2 CAcc bases cells -> sweep mk added cells = (cells', mk', added', None) ->
    Forall2 (fun b c => (consumed (c_in c) <= b + length (c_slot c) + 1)%nat) bases cells'.
  Proof.
    intros HF E. pose proof (sweep_acc _ _ _ _ _ _ _ HF E) as H.
    clear -H. induction H as [|b c bt ct Hc Ht IH]; constructor; [|assumption].
    unfold CAcc, Acc, peeked in Hc. destruct (peek (c_in c)); lia.
  Qed.
End OverlapConsumption.
