(* SorterWorldFaults.v - C18: (a) the injected fault surfaces from the
   operation in progress, (d) two calls of close() suffice.  Both rest on a
   strengthened invariant: the registered descriptors are distinct and open
   (descriptor numbers are fresh), so os.close never fails on its own. *)
From Coq Require Import Permutation.
From MafVerif Require Import lib.Base model.Sorter model.SorterWorld proofs.SorterWorldFacts.

Section Faults.
  Variables A K D : Type.
  Variable keyf : A -> res K.
  Variable lt : K -> K -> bool.
  Variable enc : A -> D.
  Variable dec : D -> res A.
  Variable pick_min : forall X : Type, (X -> X -> bool) -> list X -> option (X * list X).
  Variable eof : bool.

  Notation world := (world D).
  Notation wsorter := (wsorter K D).
  Notation w_spill := (w_spill K D lt pick_min).
  Notation w_add := (w_add A K D keyf lt enc pick_min).
  Notation w_iter := (w_iter A K D keyf lt dec pick_min eof).
  Notation w_advance := (w_advance A K D keyf dec eof).
  Notation w_cursors := (w_cursors A K D keyf dec eof).
  Notation w_merge := (w_merge A K D keyf lt dec pick_min eof).
  Notation w_close := (w_close K D).
  Notation w_close_loop := (w_close_loop D).
  Notation w_step := (w_step A K D keyf lt enc dec pick_min eof).
  Notation w_run := (w_run A K D keyf lt enc dec pick_min eof).
  Notation w_workload := (w_workload A K D keyf lt enc dec pick_min eof).
  Notation wpaths := (wpaths K D).
  Notation wfds := (wfds K D).
  Notation wstash := (wstash K D).
  Notation nx := (next_id D).
  Notation flt := (fault D).
  Notation WI := (WI K D).

  Definition err_of {X} (r : res X) : option exn := match r with Ok _ => None | Raise e => Some e end.

  (* how an operation moves the fault schedule: the counter only goes down;
     when it fires, the operation reports OSError with the scheduled errno;
     `strict`: the operation has no other way of failing *)
  Definition fsurfx (w w1 : world) (e : option exn) : Prop :=
    (nx w <= nx w1)%nat /\
    (flt w = None -> flt w1 = None /\ hit D w1 = hit D w) /\
    (forall n eno, flt w = Some (n, eno) ->
       (exists n', flt w1 = Some (n', eno) /\ hit D w1 = hit D w) \/ (flt w1 = None /\ e = Some (OSError eno))).
  Definition strict (w w1 : world) (e : option exn) : Prop :=
    e <> None -> flt w <> None /\ flt w1 = None.

  Lemma fsurfx_refl w : fsurfx w w None.
  Proof. unfold fsurfx. split; [lia |]. split; [auto |]. intros n eno F. left. exists n. auto. Qed.

  Lemma fsurfx_seq w w1 w2 e : fsurfx w w1 None -> fsurfx w1 w2 e -> fsurfx w w2 e.
  Proof.
    intros (N1 & A1 & B1) (N2 & A2 & B2). split; [lia |]. split.
    - intros F. destruct (A1 F) as (F1 & H1). destruct (A2 F1) as (F2 & H2). split; congruence.
    - intros n eno F. destruct (B1 n eno F) as [(n' & F1 & H1) | (_ & X)]; [| discriminate].
      destruct (B2 n' eno F1) as [(n'' & F2 & H2) | X]; [left; exists n''; split; congruence | right; exact X].
  Qed.

  Ltac fin :=
    unfold fsurfx, strict; simpl;
    repeat match goal with
           | |- _ /\ _ => split
           | |- forall _, _ => intro
           | H : fault _ ?w = _, H0 : fault _ ?w = _ |- _ => rewrite H in H0
           | H : Some _ = Some _ |- _ => inversion H; subst; clear H
           | H : Some _ = None |- _ => discriminate H
           | H : None = Some _ |- _ => discriminate H
           | H : ?x <> ?x |- _ => exfalso; apply H; reflexivity
           end;
    try lia; try reflexivity; try discriminate; try congruence;
    try (left; eexists; split; reflexivity); try (right; split; reflexivity).

  Lemma mkstemp_f (w : world) r w1 : w_mkstemp D w = (r, w1) ->
    fsurfx w w1 (err_of r) /\ strict w w1 (err_of r) /\
    (forall id, r = Ok id -> id = nx w /\ (S (nx w) <= nx w1)%nat).
  Proof.
    unfold w_mkstemp, tick. destruct (flt w) as [[[| n] eno] |] eqn:F; intros H; inversion H; subst; fin.
  Qed.

  Lemma open_w_f id (w : world) r w1 : w_open_w D id w = (r, w1) -> fsurfx w w1 (err_of r) /\ strict w w1 (err_of r).
  Proof. unfold w_open_w, tick. destruct (flt w) as [[[| n] eno] |] eqn:F; intros H; inversion H; subst; fin. Qed.

  Lemma write_len_f (w : world) r w1 : w_write_len D w = (r, w1) -> fsurfx w w1 (err_of r) /\ strict w w1 (err_of r).
  Proof. unfold w_write_len, tick. destruct (flt w) as [[[| n] eno] |] eqn:F; intros H; inversion H; subst; fin. Qed.

  Lemma write_data_f id d (w : world) r w1 : w_write_data D id d w = (r, w1) -> fsurfx w w1 (err_of r) /\ strict w w1 (err_of r).
  Proof. unfold w_write_data, tick. destruct (flt w) as [[[| n] eno] |] eqn:F; intros H; inversion H; subst; fin. Qed.

  Lemma close_w_f id (w : world) r w1 : w_close_w D id w = (r, w1) -> fsurfx w w1 (err_of r) /\ strict w w1 (err_of r).
  Proof. unfold w_close_w, tick. destruct (flt w) as [[[| n] eno] |] eqn:F; intros H; inversion H; subst; fin. Qed.

  Lemma close_r_f h (w : world) r w1 : w_close_r D h w = (r, w1) -> fsurfx w w1 (err_of r) /\ strict w w1 (err_of r).
  Proof. unfold w_close_r, tick. destruct (flt w) as [[[| n] eno] |] eqn:F; intros H; inversion H; subst; fin. Qed.

  Lemma open_r_f id (w : world) r w1 : w_open_r D id w = (r, w1) -> fsurfx w w1 (err_of r).
  Proof.
    unfold w_open_r, tick. destruct (flt w) as [[[| n] eno] |] eqn:F; simpl;
      try destruct (lookup_file D id (files D w)); intros H; inversion H; subst; fin.
  Qed.

  Lemma fsurfx_weaken w w1 e : fsurfx w w1 None -> fsurfx w w1 e.
  Proof.
    intros (N & A0 & B). split; [exact N |]. split; [exact A0 |]. intros n eno F.
    destruct (B n eno F) as [X | (_ & X)]; [left; exact X | discriminate].
  Qed.

  (* after the fault has fired (and surfaced as e), whatever runs next cannot change that *)
  Lemma fsurfx_after w w1 w2 e e' : fsurfx w w1 e -> flt w1 = None -> fsurfx w1 w2 e' -> fsurfx w w2 e.
  Proof.
    intros (N1 & A1 & B1) F1 (N2 & A2 & _). destruct (A2 F1) as (F2 & H2). split; [lia |]. split.
    - intros F. destruct (A1 F) as (_ & H1). split; congruence.
    - intros n eno F. destruct (B1 n eno F) as [(n' & X & _) | (_ & X)]; [congruence |]. right. split; assumption.
  Qed.

  Lemma strict_none_ok {X} w w1 (r : res X) : strict w w1 (err_of r) -> flt w = None -> exists x, r = Ok x.
  Proof.
    intros S F. destruct r as [x | e]; [exists x; reflexivity |]. exfalso.
    destruct (S ltac:(simpl; discriminate)) as (N & _). exact (N F).
  Qed.

  Lemma write_all_f id ds : forall (w : world) e w1, write_all D id ds w = (e, w1) -> fsurfx w w1 e /\ strict w w1 e.
  Proof.
    induction ds as [| d r IH]; intros w e w1; simpl.
    - intros H; inversion H; subst. split; [apply fsurfx_refl | intros X; congruence].
    - destruct (w_write_len D w) as [[u | x] wa] eqn:E1; apply write_len_f in E1; destruct E1 as (F1 & S1); simpl in *.
      2: { intros H; inversion H; subst. split; assumption. }
      destruct (w_write_data D id d wa) as [[u2 | x2] wb] eqn:E2; apply write_data_f in E2; destruct E2 as (F2 & S2); simpl in *.
      2: { intros H; inversion H; subst. split; [eapply fsurfx_seq; eauto |].
           intros X. destruct (S2 X) as (Na & Fb). split; [| exact Fb].
           intros Fw. destruct F1 as (_ & A1 & _). destruct (A1 Fw) as (Fa & _). exact (Na Fa). }
      intros H. apply IH in H. destruct H as (F3 & S3). split; [eapply fsurfx_seq; [eapply fsurfx_seq; eauto | exact F3] |].
      intros X. destruct (S3 X) as (Nb & Fc). split; [| exact Fc].
      intros Fw. destruct F1 as (_ & A1 & _). destruct (A1 Fw) as (Fa & _).
      destruct F2 as (_ & A2 & _). destruct (A2 Fa) as (Fb & _). exact (Nb Fb).
  Qed.

  (* Sorter.__spill: the fault surfaces; a new descriptor, if any, is number nx w *)
  Lemma spill_f (s : wsorter) (w : world) e s' w' : w_spill s w = (e, s', w') ->
    fsurfx w w' e /\
    (wfds s' = wfds s \/ (wfds s' = wfds s ++ [Some (nx w)] /\ (S (nx w) <= nx w')%nat)).
  Proof.
    intros H. unfold SorterWorld.w_spill in H.
    destruct (wstash s) as [| e0 st] eqn:Es.
    { inversion H; subst. split; [apply fsurfx_refl | left; reflexivity]. }
    destruct (w_mkstemp D w) as [[id | x] w1] eqn:E1; apply mkstemp_f in E1; destruct E1 as (F1 & S1 & I1); simpl in *.
    2: { inversion H; subst. split; [exact F1 | left; reflexivity]. }
    destruct (I1 id eq_refl) as (-> & N1).
    assert (Fin : forall e s2 w2, fsurfx w1 w2 e -> wfds s2 = wfds (ws_register K D s (nx w)) ->
                  fsurfx w w2 e /\ (wfds s2 = wfds s \/ (wfds s2 = wfds s ++ [Some (nx w)] /\ (S (nx w) <= nx w2)%nat))).
    { intros e2 s2 w2 F Eq. split; [eapply fsurfx_seq; eauto |]. right. split; [exact Eq |]. destruct F as (N & _). lia. }
    destruct (w_open_w D (nx w) w1) as [[u | x] w2] eqn:E2; apply open_w_f in E2; destruct E2 as (F2 & S2); simpl in *.
    2: { inversion H; subst. apply Fin; [exact F2 | reflexivity]. }
    destruct (sort_entries K D lt pick_min (wstash s)) as [l |] eqn:Esrt.
    2: { destruct (w_close_w D (nx w) w2) as [[u3 | x3] w3] eqn:E3; apply close_w_f in E3; destruct E3 as (F3 & S3); simpl in *;
           inversion H; subst; (apply Fin; [| reflexivity]).
         - eapply fsurfx_seq; [exact F2 |]. apply fsurfx_weaken. exact F3.
         - eapply fsurfx_seq; eauto. }
    destruct (write_all D (nx w) (map snd l) w2) as [[x |] w3] eqn:E3; apply write_all_f in E3; destruct E3 as (F3 & S3).
    - destruct (S3 ltac:(discriminate)) as (_ & Fw3).
      destruct (w_close_w D (nx w) w3) as [r4 w4] eqn:E4; apply close_w_f in E4; destruct E4 as (F4 & S4).
      destruct (strict_none_ok _ _ _ S4 Fw3) as (u4 & ->).
      inversion H; subst. apply Fin; [| reflexivity].
      eapply fsurfx_seq; [exact F2 |]. eapply fsurfx_after; eauto.
    - destruct (w_close_w D (nx w) w3) as [[u4 | x4] w4] eqn:E4; apply close_w_f in E4; destruct E4 as (F4 & S4); simpl in *;
        inversion H; subst; (apply Fin; [| reflexivity]); (eapply fsurfx_seq; [exact F2 |]; eapply fsurfx_seq; eauto).
  Qed.

  Lemma add_f (s : wsorter) x (w : world) e s' w' : w_add s x w = (e, s', w') ->
    (fsurfx w w' e \/ (w' = w /\ wfds s' = wfds s)) /\
    (wfds s' = wfds s \/ (wfds s' = wfds s ++ [Some (nx w)] /\ (S (nx w) <= nx w')%nat)).
  Proof.
    intros H. unfold SorterWorld.w_add in H. destruct (keyf x) as [k | ex]; [| inversion H; subst; split; [right; split |]; auto].
    destruct (wcap K D s <=? length (wstash s))%nat; [inversion H; subst; split; [right; split |]; auto |].
    destruct (length (wstash (ws_stash K D s (wstash s ++ [(k, enc x)]))) =? wcap K D s)%nat.
    - apply spill_f in H. destruct H as (F & I). split; [left; exact F | exact I].
    - inversion H; subst. split; [right; split |]; auto.
  Qed.

  (* reads may also fail with EOFError (eof = true): the relaxed form *)
  Definition fsurf (w w1 : world) (e : option exn) : Prop :=
    (nx w <= nx w1)%nat /\
    (flt w = None -> flt w1 = None /\ hit D w1 = hit D w) /\
    (forall n eno, flt w = Some (n, eno) ->
       (exists n', flt w1 = Some (n', eno) /\ hit D w1 = hit D w) \/
       (flt w1 = None /\ (e = Some (OSError eno) \/ (eof = true /\ e = Some PlainException)))).

  Lemma fsurf_lift w w1 e : fsurfx w w1 e -> fsurf w w1 e.
  Proof.
    intros (N & A0 & B). split; [exact N |]. split; [exact A0 |]. intros n eno F.
    destruct (B n eno F) as [X | (X & Y)]; [left; exact X | right; split; [exact X | left; exact Y]].
  Qed.

  Lemma fsurf_refl w : fsurf w w None.
  Proof. apply fsurf_lift, fsurfx_refl. Qed.

  Lemma fsurf_seq w w1 w2 e : fsurf w w1 None -> fsurf w1 w2 e -> fsurf w w2 e.
  Proof.
    intros (N1 & A1 & B1) (N2 & A2 & B2). split; [lia |]. split.
    - intros F. destruct (A1 F) as (F1 & H1). destruct (A2 F1) as (F2 & H2). split; congruence.
    - intros n eno F. destruct (B1 n eno F) as [(n' & F1 & H1) | (_ & [X | (_ & X)])]; try discriminate.
      destruct (B2 n' eno F1) as [(n'' & F2 & H2) | X]; [left; exists n''; split; congruence | right; exact X].
  Qed.

  Lemma fsurf_weaken w w1 e : fsurf w w1 None -> fsurf w w1 e.
  Proof.
    intros (N & A0 & B). split; [exact N |]. split; [exact A0 |]. intros n eno F.
    destruct (B n eno F) as [X | (_ & [X | (_ & X)])]; [left; exact X | discriminate | discriminate].
  Qed.

  Lemma fsurf_then w w2 w3 e : fsurf w w2 e -> fsurf w2 w3 None -> fsurf w w3 e.
  Proof.
    intros (N1 & A1 & B1) (N2 & A2 & B2). split; [lia |]. split.
    - intros F. destruct (A1 F) as (F2 & H2). destruct (A2 F2) as (F3 & H3). split; congruence.
    - intros n eno F. destruct (B1 n eno F) as [(n' & F2 & H2) | (F2 & X)].
      + destruct (B2 n' eno F2) as [(n'' & F3 & H3) | (_ & [Y | (_ & Y)])]; try discriminate.
        left. exists n''. split; congruence.
      + right. destruct (A2 F2) as (F3 & _). split; assumption.
  Qed.

  Lemma read_f (w : world) r w1 : w_read D eof w = (r, w1) -> fsurf w w1 (err_of r).
  Proof.
    unfold w_read, tick. destruct (flt w) as [[[| n] eno] |] eqn:F; intros H; inversion H; subst.
    - unfold fsurf. simpl. split; [lia |]. split; [intros X; congruence |]. intros n0 eno0 F0.
      rewrite F in F0. inversion F0; subst. right. split; [reflexivity |].
      destruct eof; [right; split; reflexivity | left; reflexivity].
    - apply fsurf_lift. fin.
    - apply fsurf_lift. fin.
  Qed.

  Lemma advance_f h ds (w : world) r w1 : w_advance h ds w = (r, w1) -> fsurf w w1 (err_of r).
  Proof.
    unfold SorterWorld.w_advance. destruct (w_read D eof w) as [[u | x] wa] eqn:E1; apply read_f in E1; rename E1 into F1; simpl in *.
    2: { intros H; inversion H; subst; exact F1. }
    destruct ds as [| d r0].
    - destruct (w_close_r D h wa) as [[u2 | x2] wb] eqn:E2; apply close_r_f in E2; destruct E2 as (F2 & _); apply fsurf_lift in F2; simpl in *;
        intros H; inversion H; subst; eapply fsurf_seq; eauto.
    - destruct (w_read D eof wa) as [[u2 | x2] wb] eqn:E2; apply read_f in E2; rename E2 into F2; simpl in *.
      2: { intros H; inversion H; subst. eapply fsurf_seq; eauto. }
      assert (F12 : fsurf w wb None) by (eapply fsurf_seq; eauto).
      destruct (dec d) as [a | x3]; [| intros H; inversion H; subst; apply fsurf_weaken; exact F12].
      destruct (keyf a) as [k | x4]; intros H; inversion H; subst; [exact F12 | apply fsurf_weaken; exact F12].
  Qed.

  Lemma cursors_f paths : forall (w : world) r w1, w_cursors paths w = (r, w1) -> fsurf w w1 (err_of r).
  Proof.
    induction paths as [| p ps IH]; intros w r w1; simpl.
    - intros H; inversion H; subst. apply fsurf_refl.
    - destruct (w_open_r D p w) as [[[h c] | x] wa] eqn:E1; apply open_r_f in E1; apply fsurf_lift in E1; simpl in E1.
      2: { intros H; inversion H; subst; exact E1. }
      destruct (w_advance h c wa) as [[[cu |] | x] wb] eqn:E2; apply advance_f in E2; simpl in E2.
      + destruct (w_cursors ps wb) as [[l | x] wc] eqn:E3; apply IH in E3; simpl in E3; intros H; inversion H; subst;
          (eapply fsurf_seq; [exact E1 |]; eapply fsurf_seq; [exact E2 |]; exact E3).
      + intros H; inversion H; subst. apply fsurf_weaken. eapply fsurf_seq; eauto.
      + intros H; inversion H; subst. eapply fsurf_seq; eauto.
  Qed.

  Definition st_err (st : mstatus) : option exn := match st with MRaised e => Some e | _ => None end.

  Lemma merge_f pulls : forall heap opn (w : world) ys st hs w1,
    w_merge pulls heap opn w = ((ys, st, hs), w1) -> fsurf w w1 (st_err st).
  Proof.
    induction pulls as [| p IH]; intros heap opn w ys st hs w1; simpl.
    - intros H; inversion H; subst. apply fsurf_refl.
    - destruct heap as [| c0 h0]; [intros H; inversion H; subst; apply fsurf_refl |].
      destruct (pick_min _ _ (c0 :: h0)) as [[c rest] |]; [| intros H; inversion H; subst; apply fsurf_weaken, fsurf_refl].
      destruct (w_advance (wh A K D c) (wrest A K D c) w) as [[[c' |] | x] wa] eqn:E1; apply advance_f in E1; simpl in E1.
      + destruct (w_merge p (c' :: rest) opn wa) as [[[ys0 st0] hs0] wb] eqn:E2. apply IH in E2. intros H; inversion H; subst.
        eapply fsurf_seq; eauto.
      + destruct (w_merge p rest (remove_nat (wh A K D c) opn) wa) as [[[ys0 st0] hs0] wb] eqn:E2. apply IH in E2.
        intros H; inversion H; subst. eapply fsurf_seq; eauto.
      + intros H; inversion H; subst. exact E1.
  Qed.

  (* _MergingIterator.close(): every reader attempted; the only way it fails is the scheduled fault *)
  Definition mclose_post (w w1 : world) (err err' : option exn) : Prop :=
    (nx w <= nx w1)%nat /\
    (flt w = None -> flt w1 = None /\ hit D w1 = hit D w /\ err' = err) /\
    (forall n eno, flt w = Some (n, eno) ->
       (exists n', flt w1 = Some (n', eno) /\ hit D w1 = hit D w /\ err' = err) \/
       (flt w1 = None /\ err' = first_err err (OSError eno))).

  Lemma mclose_post_trans w w1 w2 e0 e1 e2 : mclose_post w w1 e0 e1 -> mclose_post w1 w2 e1 e2 -> mclose_post w w2 e0 e2.
  Proof.
    intros (N1 & A1 & B1) (N2 & A2 & B2). split; [lia |]. split.
    - intros F. destruct (A1 F) as (F1 & H1 & E1). destruct (A2 F1) as (F2 & H2 & E2). repeat split; congruence.
    - intros n eno F. destruct (B1 n eno F) as [(n' & F1 & H1 & E1) | (F1 & E1)].
      + destruct (B2 n' eno F1) as [(n'' & F2 & H2 & E2) | (F2 & E2)].
        * left. exists n''. repeat split; congruence.
        * right. split; [exact F2 | congruence].
      + destruct (A2 F1) as (F2 & _ & E2). right. split; [exact F2 | congruence].
  Qed.

  Lemma mclose_f hs : forall (w : world) err err' w1, w_mclose D hs w err = (err', w1) -> mclose_post w w1 err err'.
  Proof.
    induction hs as [| h r IH]; intros w err err' w1 H; simpl in H.
    - inversion H; subst. split; [lia |]. split; [auto |]. intros n eno F. left. exists n. auto.
    - destruct (w_close_r D h w) as [[u | e] wa] eqn:E; apply close_r_f in E; destruct E as ((N & A0 & B) & S); simpl in *;
        apply IH in H; (eapply mclose_post_trans; [| exact H]); (split; [exact N |]); split.
      + intros F. destruct (A0 F). auto.
      + intros n eno F. destruct (B n eno F) as [(n' & F1 & H1) | (_ & X)]; [| discriminate]. left. exists n'. auto.
      + intros F. destruct (S ltac:(discriminate)) as (Nw & _). contradiction.
      + intros n eno F. destruct (S ltac:(discriminate)) as (_ & Fa).
        destruct (B n eno F) as [(n' & F1 & _) | (_ & X)]; [congruence |]. inversion X; subst.
        right. split; [exact Fa |]. destruct err; reflexivity.
  Qed.

  Lemma close_merging_f ms : forall (w : world) err err' w1, w_close_merging D ms w err = (err', w1) -> mclose_post w w1 err err'.
  Proof.
    induction ms as [| hs r IH]; intros w err err' w1 H; simpl in H.
    - inversion H; subst. split; [lia |]. split; [auto |]. intros n eno F. left. exists n. auto.
    - destruct (w_mclose D hs w err) as [err1 wa] eqn:E. apply mclose_f in E. apply IH in H.
      eapply mclose_post_trans; eauto.
  Qed.

  (* the finally clause of Sorter.__iter__ after the pending exception e *)
  Lemma fsurf_finally w w3 w4 e eo : fsurf w w3 e -> mclose_post w3 w4 None eo ->
    fsurf w w4 (match eo with Some x => Some x | None => e end).
  Proof.
    intros (N1 & A1 & B1) (N2 & A2 & B2). split; [lia |]. split.
    - intros F. destruct (A1 F) as (F3 & H3). destruct (A2 F3) as (F4 & H4 & _). split; congruence.
    - intros n eno F. destruct (B1 n eno F) as [(n' & F3 & H3) | (F3 & X)].
      + destruct (B2 n' eno F3) as [(n'' & F4 & H4 & ->) | (F4 & ->)].
        * left. exists n''. split; congruence.
        * right. split; [exact F4 |]. left. reflexivity.
      + destruct (A2 F3) as (F4 & _ & ->). right. split; assumption.
  Qed.

  Lemma finally_f (s : wsorter) ys e hs (w w3 : world) ys' e' s' w4 :
    fsurf w w3 e -> w_finally A K D s ys e hs w3 = ((ys', e'), s', w4) -> fsurf w w4 e' /\ s' = s.
  Proof.
    intros F H. unfold SorterWorld.w_finally in H. destruct (w_mclose D hs w3 None) as [eo w1] eqn:E.
    apply mclose_f in E. pose proof (fsurf_finally _ _ _ _ _ F E) as X.
    destruct eo; inversion H; subst; split; auto.
  Qed.

  Lemma iter_f (s : wsorter) p keep (w : world) ys e s' w' : w_iter s p keep w = ((ys, e), s', w') ->
    (fsurf w w' e \/ (w' = w /\ wfds s' = wfds s)) /\
    (wfds s' = wfds s \/ (wfds s' = wfds s ++ [Some (nx w)] /\ (S (nx w) <= nx w')%nat)).
  Proof.
    intros H. unfold SorterWorld.w_iter in H. destruct p as [| p]; [inversion H; subst; split; [right; split |]; auto |].
    destruct (negb (is_nil (wpaths s)) || walways K D s).
    - destruct (w_spill s w) as [[e1 s1] w1] eqn:E1. apply spill_f in E1. destruct E1 as (F1 & I1). apply fsurf_lift in F1.
      destruct e1 as [x |]; [inversion H; subst; split; [left; exact F1 | exact I1] |].
      assert (Fin : forall e2 (w2 : world), fsurf w1 w2 e2 -> forall s2, wfds s2 = wfds s1 ->
                (fsurf w w2 e2 \/ (w2 = w /\ wfds s2 = wfds s)) /\
                (wfds s2 = wfds s \/ (wfds s2 = wfds s ++ [Some (nx w)] /\ (S (nx w) <= nx w2)%nat))).
      { intros e2 w2 F2 s2 Es. split.
        - left. eapply fsurf_seq; eauto.
        - rewrite Es. destruct I1 as [I1 | (I1 & N1)]; [left; exact I1 | right]. split; [exact I1 |].
          destruct F2 as (N2 & _). lia. }
      destruct (w_cursors (wpaths s1) w1) as [[heap | x] w2] eqn:E2; apply cursors_f in E2; simpl in E2.
      2: { inversion H; subst. apply Fin; [exact E2 | reflexivity]. }
      destruct (w_merge (S p) heap (map (wh A K D) heap) w2) as [[[ys3 st] hs] w3] eqn:E3. apply merge_f in E3.
      assert (F13 : fsurf w1 w3 (st_err st)) by (eapply fsurf_seq; eauto).
      destruct st as [| | e0]; simpl in F13.
      + destruct (finally_f _ _ _ _ _ _ _ _ _ _ F13 H) as (F4 & ->). apply Fin; [exact F4 | reflexivity].
      + destruct keep.
        * inversion H; subst. apply Fin; [exact F13 | reflexivity].
        * destruct (finally_f _ _ _ _ _ _ _ _ _ _ F13 H) as (F4 & ->). apply Fin; [exact F4 | reflexivity].
      + destruct (finally_f _ _ _ _ _ _ _ _ _ _ F13 H) as (F4 & ->). apply Fin; [exact F4 | reflexivity].
    - destruct (sort_entries K D lt pick_min (wstash s)); inversion H; subst; (split; [right; split |]; auto).
  Qed.

  (* ---------- the strengthened invariant: registered descriptors are distinct and open ---------- *)
  Fixpoint somes (l : list (option nat)) : list nat :=
    match l with [] => [] | Some x :: r => x :: somes r | None :: r => somes r end.

  Lemma in_somes x l : In x (somes l) <-> In (Some x) l.
  Proof.
    induction l as [| [y |] l IH]; simpl; [tauto | |].
    - rewrite IH. split; intros [X | X]; auto; left; congruence.
    - rewrite IH. split; [auto | intros [X | X]; [discriminate | exact X]].
  Qed.

  Lemma somes_app l1 l2 : somes (l1 ++ l2) = somes l1 ++ somes l2.
  Proof. induction l1 as [| [y |] l IH]; simpl; congruence. Qed.

  Definition FW (w : world) : Prop := forall fd, In fd (fds D w) -> (fd < nx w)%nat.
  Definition WI2 (s : wsorter) (w : world) : Prop :=
    WI s w /\ FW w /\ NoDup (somes (wfds s)) /\ (forall fd, In (Some fd) (wfds s) -> In fd (fds D w)).

  Lemma WI2_new c al f : WI2 (wnew K D c al) (world0 D f).
  Proof.
    split; [apply WI_new |]. split; [intros fd [] |]. split; [constructor | intros fd []].
  Qed.

  Lemma WI2_grow (s s' : wsorter) (w w' : world) :
    WI2 s w -> WI s' w' -> (nx w <= nx w')%nat ->
    ((wfds s' = wfds s /\ fds D w' = fds D w) \/
     (wfds s' = wfds s ++ [Some (nx w)] /\ fds D w' = fds D w ++ [nx w] /\ (S (nx w) <= nx w')%nat)) ->
    WI2 s' w'.
  Proof.
    intros (I & Fw & Nd & Pr) I' N [(Ef & Ed) | (Ef & Ed & N')]; (split; [exact I' |]).
    - rewrite Ef. split; [| split; [exact Nd |]].
      + intros fd Hfd. rewrite Ed in Hfd. apply Fw in Hfd. lia.
      + intros fd Hfd. rewrite Ed. apply Pr. exact Hfd.
    - rewrite Ef. split; [| split].
      + intros fd Hfd. rewrite Ed in Hfd. apply in_app_or in Hfd. destruct Hfd as [Hfd | [<- | []]]; [apply Fw in Hfd |]; lia.
      + rewrite somes_app. simpl. eapply Permutation_NoDup; [apply Permutation_cons_append |].
        constructor; [| exact Nd]. intros X. apply in_somes in X. apply Pr in X. apply Fw in X. lia.
      + intros fd Hfd. rewrite Ed. apply in_app_or in Hfd. apply in_or_app.
        destruct Hfd as [Hfd | [X | []]]; [left; apply Pr; exact Hfd | right; left; congruence].
  Qed.

  Definition res_rel (s s' : wsorter) (w w' : world) : Prop :=
    (wfds s' = wfds s /\ fds D w' = fds D w) \/
    (exists id, wfds s' = wfds s ++ [Some id] /\ fds D w' = fds D w ++ [id]).

  Lemma merge_id (s s' : wsorter) (w w' : world) :
    res_rel s s' w w' ->
    (wfds s' = wfds s \/ (wfds s' = wfds s ++ [Some (nx w)] /\ (S (nx w) <= nx w')%nat)) ->
    (wfds s' = wfds s /\ fds D w' = fds D w) \/
    (wfds s' = wfds s ++ [Some (nx w)] /\ fds D w' = fds D w ++ [nx w] /\ (S (nx w) <= nx w')%nat).
  Proof.
    intros [(Ef & Ed) | (id & Ef & Ed)] [Ef' | (Ef' & N)].
    - left. split; assumption.
    - left. split; assumption.
    - exfalso. rewrite Ef' in Ef. apply (f_equal (@length _)) in Ef. rewrite app_length in Ef. simpl in Ef. lia.
    - right. rewrite Ef in Ef'. apply app_inj_tail in Ef'. destruct Ef' as (_ & X). inversion X; subst.
      repeat split; assumption.
  Qed.

  Lemma spill_res (s : wsorter) (w : world) e s' w' : whandles D w = [] -> w_spill s w = (e, s', w') -> res_rel s s' w w'.
  Proof.
    intros W H. destruct (spill_spec K D lt pick_min s w e s' w' H W) as (_ & _ & [((_ & Ef) & _ & Ed) | (id & _ & Ef & _ & Ed)]).
    - left. split; assumption.
    - right. exists id. split; assumption.
  Qed.

  Lemma add_res (s : wsorter) x (w : world) e s' w' : WI s w -> w_add s x w = (e, s', w') -> res_rel s s' w w'.
  Proof.
    intros (_ & _ & _ & W & _) H. unfold SorterWorld.w_add in H.
    destruct (keyf x) as [k | ex]; [| inversion H; subst; left; split; reflexivity].
    destruct (wcap K D s <=? length (wstash s))%nat; [inversion H; subst; left; split; reflexivity |].
    destruct (length (wstash (ws_stash K D s (wstash s ++ [(k, enc x)]))) =? wcap K D s)%nat.
    - apply (spill_res _ _ _ _ _ W) in H. exact H.
    - inversion H; subst. left. split; reflexivity.
  Qed.

  Lemma iter_res (s : wsorter) p keep (w : world) r s' w' : WI s w -> w_iter s p keep w = (r, s', w') -> res_rel s s' w w'.
  Proof.
    intros (_ & _ & _ & W & _) H. unfold SorterWorld.w_iter in H.
    destruct p as [| p]; [inversion H; subst; left; split; reflexivity |].
    destruct (negb (is_nil (wpaths s)) || walways K D s).
    - destruct (w_spill s w) as [[e1 s1] w1] eqn:E1. apply (spill_res _ _ _ _ _ W) in E1.
      destruct e1 as [x |]; [inversion H; subst; exact E1 |].
      assert (Fin : forall (w2 : world) s2, quiet D w1 w2 -> wfds s2 = wfds s1 -> res_rel s s2 w w2).
      { intros w2 s2 (_ & Q & _) Es. unfold res_rel in *. rewrite Q, Es. exact E1. }
      destruct (w_cursors (wpaths s1) w1) as [[heap | x] w2] eqn:E2; apply cursors_quiet in E2.
      2: { inversion H; subst. apply Fin; [| reflexivity]. destruct E2 as (a & b & c). repeat split; assumption. }
      destruct (w_merge (S p) heap (map (wh A K D) heap) w2) as [[[ys3 st] hs] w3] eqn:E3. apply merge_quiet in E3.
      assert (Q13 : quiet D w1 w3) by (eapply quiet_trans; eauto).
      assert (FinF : forall e0 r0 s0 w0, w_finally A K D s1 ys3 e0 hs w3 = (r0, s0, w0) -> res_rel s s0 w w0).
      { intros e0 r0 s0 w0 Hf. apply finally_WI in Hf; [| apply incl_refl]. destruct Hf as (-> & Q4 & _).
        apply Fin; [eapply quiet_trans; eauto | reflexivity]. }
      destruct st as [| | e0]; [eapply FinF; exact H | | eapply FinF; exact H].
      destruct keep; [inversion H; subst; apply Fin; [exact Q13 | reflexivity] | eapply FinF; exact H].
    - destruct (sort_entries K D lt pick_min (wstash s)); inversion H; subst; left; split; reflexivity.
  Qed.

  Lemma fsurfx_nx w w' e : fsurfx w w' e -> (nx w <= nx w')%nat.
  Proof. intros (N & _). exact N. Qed.

  Lemma fsurf_nx w w' e : fsurf w w' e -> (nx w <= nx w')%nat.
  Proof. intros (N & _). exact N. Qed.

  Lemma add_WI2 (s : wsorter) x (w : world) e s' w' : WI2 s w -> w_add s x w = (e, s', w') -> WI2 s' w'.
  Proof.
    intros I2 H. pose proof I2 as (I & _).
    pose proof (add_WI A K D keyf lt enc pick_min s x w e s' w' I H) as I'.
    pose proof (add_res _ _ _ _ _ _ I H) as R. destruct (add_f _ _ _ _ _ _ H) as (F & Id).
    eapply WI2_grow; [exact I2 | exact I' | | apply merge_id; assumption].
    destruct F as [F | (-> & _)]; [apply (fsurfx_nx _ _ _ F) | lia].
  Qed.

  Lemma iter_WI2 (s : wsorter) p keep (w : world) ys e s' w' : WI2 s w -> w_iter s p keep w = ((ys, e), s', w') -> WI2 s' w'.
  Proof.
    intros I2 H. pose proof I2 as (I & _).
    pose proof (iter_WI A K D keyf lt dec pick_min eof s p keep w _ s' w' I H) as I'.
    pose proof (iter_res _ _ _ _ _ _ _ I H) as R. destruct (iter_f _ _ _ _ _ _ _ _ H) as (F & Id).
    eapply WI2_grow; [exact I2 | exact I' | | apply merge_id; assumption].
    destruct F as [F | (-> & _)]; [apply (fsurf_nx _ _ _ F) | lia].
  Qed.

  (* ---------- Sorter.close under the fault schedule ---------- *)
  Lemma os_close_f fd (w : world) r w1 : w_os_close D fd w = (r, w1) ->
    fsurfx w w1 (err_of r) /\
    (In fd (fds D w) -> strict w w1 (err_of r)) /\
    (flt w <> None -> flt w1 = None -> hit D w1 = Some COsClose) /\
    (forall x, In x (fds D w) -> x <> fd -> In x (fds D w1)).
  Proof.
    unfold w_os_close, tick. destruct (flt w) as [[[| n] eno] |] eqn:F; simpl.
    - intros H; inversion H; subst. fin. apply in_remove_nat. split; assumption.
    - destruct (mem_nat fd (fds D w)) eqn:M; intros H; inversion H; subst; fin;
        try (apply in_remove_nat; split; assumption); try assumption.
      apply mem_nat_false in M. contradiction.
    - destruct (mem_nat fd (fds D w)) eqn:M; intros H; inversion H; subst; fin;
        try (apply in_remove_nat; split; assumption); try assumption.
      apply mem_nat_false in M. contradiction.
  Qed.

  Lemma os_remove_f id (w : world) r w1 : w_os_remove D id w = (r, w1) ->
    fsurfx w w1 (err_of r) /\
    (r = Raise (OSError false) -> flt w <> None /\ flt w1 = None) /\
    (flt w <> None -> flt w1 = None -> hit D w1 = Some COsRemove) /\
    fds D w1 = fds D w.
  Proof.
    unfold w_os_remove, tick. destruct (flt w) as [[[| n] [|]] |] eqn:F; simpl;
      try destruct (lookup_file D id (files D w)); intros H; inversion H; subst; fin.
  Qed.

  (* what the error accumulator and the schedule look like after part of the loop *)
  Definition close_post (w w' : world) (err err' : option exn) : Prop :=
    (nx w <= nx w')%nat /\
    (flt w = None -> flt w' = None /\ hit D w' = hit D w /\ err' = err) /\
    (forall n eno, flt w = Some (n, eno) -> err = None ->
       (exists n', flt w' = Some (n', eno) /\ hit D w' = hit D w /\ err' = None) \/
       (flt w' = None /\ (err' = Some (OSError eno) \/ (eno = true /\ hit D w' = Some COsRemove /\ err' = None)))).

  Lemma close_post_refl w err : close_post w w err err.
  Proof.
    split; [lia |]. split; [auto |]. intros n eno F E. left. exists n. subst. auto.
  Qed.

  Lemma close_post_trans w w1 w2 e0 e1 e2 : close_post w w1 e0 e1 -> close_post w1 w2 e1 e2 -> close_post w w2 e0 e2.
  Proof.
    intros (N1 & A1 & B1) (N2 & A2 & B2). split; [lia |]. split.
    - intros F. destruct (A1 F) as (F1 & H1 & E1). destruct (A2 F1) as (F2 & H2 & E2). repeat split; congruence.
    - intros n eno F E0. destruct (B1 n eno F E0) as [(n' & F1 & H1 & E1) | (F1 & Alt)].
      + destruct (B2 n' eno F1 E1) as [(n'' & F2 & H2 & E2) | (F2 & Alt)].
        * left. exists n''. repeat split; congruence.
        * right. split; [exact F2 |]. destruct Alt as [X | (X & Y & Z)]; [left; exact X | right; repeat split; congruence].
      + destruct (A2 F1) as (F2 & H2 & E2). right. split; [exact F2 |].
        destruct Alt as [X | (X & Y & Z)]; [left; congruence | right; repeat split; congruence].
  Qed.

  Definition dpart (d : option nat) (w : world) (err : option exn) : option exn * world :=
    match d with
    | Some fd => match w_os_close D fd w with
                 | (Raise e, w1) => (first_err err e, w1)
                 | (Ok _, w1) => (err, w1)
                 end
    | None => (err, w)
    end.

  Lemma dpart_post d (w : world) err err1 w1 : dpart d w err = (err1, w1) ->
    (forall fd, d = Some fd -> In fd (fds D w)) ->
    close_post w w1 err err1 /\ (forall x, In x (fds D w) -> Some x <> d -> In x (fds D w1)).
  Proof.
    unfold dpart. intros H Pd. destruct d as [fd |].
    2: { inversion H; subst. split; [apply close_post_refl | auto]. }
    destruct (w_os_close D fd w) as [rc wa] eqn:Ec. apply os_close_f in Ec. destruct Ec as ((Nc & Ac & Bc) & Sc & Hc & Kc).
    specialize (Sc (Pd fd eq_refl)).
    assert (Keep : forall x, In x (fds D w) -> Some x <> Some fd -> In x (fds D wa)).
    { intros x Hx N. apply Kc; [exact Hx | congruence]. }
    destruct rc as [u | e]; inversion H; subst; (split; [| exact Keep]); simpl in *.
    - split; [exact Nc |]. split.
      + intros F. destruct (Ac F). auto.
      + intros n eno F E0. destruct (Bc n eno F) as [(n' & F1 & H1) | (_ & X)]; [| discriminate].
        left. exists n'. auto.
    - destruct (Sc ltac:(discriminate)) as (Nw & Fa). split; [exact Nc |]. split.
      + intros F. contradiction.
      + intros n eno F E0. subst err. simpl. destruct (Bc n eno F) as [(n' & F1 & _) | (_ & X)]; [congruence |].
        right. split; [exact Fa |]. left. exact X.
  Qed.

  Lemma rpart_post p (w1 : world) rr w2 err1 : w_os_remove D p w1 = (rr, w2) ->
    fds D w2 = fds D w1 /\
    ((rr = Ok tt \/ rr = Raise (OSError true)) /\ close_post w1 w2 err1 err1 \/
     rr = Raise (OSError false) /\ close_post w1 w2 err1 (first_err err1 (OSError false))).
  Proof.
    intros Er. pose proof (os_remove_spec D p w1 rr w2 Er) as (_ & _ & _ & Shape).
    apply os_remove_f in Er. destruct Er as ((Nr & Ar & Br) & Sr & Hr & Kr). split; [exact Kr |].
    destruct Shape as [(-> & _) | ([-> | ->] & _)].
    - right. split; [reflexivity |]. destruct (Sr eq_refl) as (Nw & F2). split; [exact Nr |]. split.
      + intros F. contradiction.
      + intros n eno F E1. subst err1. simpl. destruct (Br n eno F) as [(n' & F1 & _) | (_ & X)]; [congruence |].
        right. split; [exact F2 |]. left. exact X.
    - left. split; [left; reflexivity |]. split; [exact Nr |]. split.
      + intros F. destruct (Ar F). auto.
      + intros n eno F E1. destruct (Br n eno F) as [(n' & F1 & H1) | (_ & X)]; [| discriminate]. left. exists n'. auto.
    - left. split; [right; reflexivity |]. split; [exact Nr |]. split.
      + intros F. destruct (Ar F). auto.
      + intros n eno F E1. destruct (Br n eno F) as [(n' & F1 & H1) | (F2 & X)]; [left; exists n'; auto |].
        right. split; [exact F2 |]. right. simpl in X. inversion X; subst. repeat split; auto.
        apply Hr; [congruence | exact F2].
  Qed.

  Lemma head_step_f d p (w : world) err rem e1 r1 w2 : head_step D d p w err rem = (e1, r1, w2) ->
    (forall fd, d = Some fd -> In fd (fds D w)) ->
    close_post w w2 err e1 /\ (forall x, In x (fds D w) -> Some x <> d -> In x (fds D w2)).
  Proof.
    intros H Pd. unfold head_step in H. fold (dpart d w err) in H.
    destruct (dpart d w err) as [err1 w1] eqn:Ed. destruct (dpart_post _ _ _ _ _ Ed Pd) as (P1 & K1).
    destruct (w_os_remove D p w1) as [rr w2'] eqn:Er. destruct (rpart_post _ _ _ _ err1 Er) as (Kr & Cases).
    assert (K2 : forall x, In x (fds D w) -> Some x <> d -> In x (fds D w2')).
    { intros x Hx N. rewrite Kr. apply K1; assumption. }
    destruct Cases as [([-> | ->] & P2) | (-> & P2)]; inversion H; subst; (split; [eapply close_post_trans; eauto | exact K2]).
  Qed.

  Lemma close_loop_f paths : forall descs (w : world) err rem err' rem' w',
    w_close_loop paths descs w err rem = (err', rem', w') -> length paths = length descs ->
    NoDup (somes descs) -> (forall fd, In (Some fd) descs -> In fd (fds D w)) ->
    close_post w w' err err'.
  Proof.
    induction paths as [| p ps IH]; intros descs w err rem err' rem' w' H L Nd Pr.
    - destruct descs; simpl in H; [| simpl in L; discriminate]. inversion H; subst. apply close_post_refl.
    - destruct descs as [| d ds]; [simpl in L; discriminate |]. simpl in L. injection L as L.
      rewrite loop_unfold in H. destruct (head_step D d p w err rem) as [[e1 r1] w2] eqn:Eh.
      apply head_step_f in Eh.
      2: { intros fd ->. apply Pr. left. reflexivity. }
      destruct Eh as (P1 & K1).
      eapply close_post_trans; [exact P1 |]. eapply IH; [exact H | exact L | |].
      + destruct d as [fd |]; simpl in Nd; [inversion Nd; assumption | exact Nd].
      + intros fd Hfd. apply K1; [apply Pr; right; exact Hfd |].
        intros <-. simpl in Nd. inversion Nd as [| ? ? Nin _]; subst. apply Nin. apply in_somes. exact Hfd.
  Qed.

  (* one call of Sorter.close on a reachable state *)
  Lemma close_f (s : wsorter) (w : world) e s' w' : WI2 s w -> w_close s w = (e, s', w') ->
    WI2 s' w' /\ close_post w w' None e.
  Proof.
    intros (I & Fw & Nd & Pr) H. pose proof (close_spec K D s w e s' w' I H) as (I' & Fd & _ & AllNone & _).
    pose proof I as (_ & _ & L & _).
    unfold SorterWorld.w_close in H.
    destruct (w_close_merging D (wmerging K D s) w None) as [err0 w0] eqn:E0.
    pose proof (close_merging_spec D _ _ _ _ _ E0) as ((_ & Qf & _) & _).
    apply close_merging_f in E0.
    destruct (w_close_loop (wpaths s) (wfds s) w0 err0 []) as [[err rem] w1] eqn:E.
    inversion H; subst.
    assert (Pr0 : forall fd, In (Some fd) (wfds s) -> In fd (fds D w0)) by (intros fd Hfd; rewrite Qf; apply Pr; exact Hfd).
    pose proof (close_loop_f _ _ _ _ _ _ _ _ E L Nd Pr0) as P1.
    assert (P0 : close_post w w0 None err0).
    { destruct E0 as (N & A0 & B). split; [exact N |]. split; [exact A0 |]. intros n eno F _.
      destruct (B n eno F) as [(n' & X & Y & Z) | (X & Y)]; [left; exists n'; auto | right; split; [exact X | left; exact Y]]. }
    pose proof (close_post_trans _ _ _ _ _ _ P0 P1) as P. split; [| exact P].
    split; [exact I' |]. split; [intros fd Hfd; rewrite Fd in Hfd; destruct Hfd |]. split.
    - simpl. clear. induction rem; simpl; [constructor | assumption].
    - intros fd Hfd. apply AllNone in Hfd. discriminate.
  Qed.

  (* ---------- reachable states ---------- *)
  Inductive reachable (c : nat) (al : bool) (f : option (nat * bool)) : wsorter -> world -> Prop :=
  | reach_init : reachable c al f (wnew K D c al) (world0 D f)
  | reach_step s w o out ys s' w' :
      reachable c al f s w -> w_step s o w = (out, ys, s', w') -> reachable c al f s' w'.

  Lemma step_WI2 (s : wsorter) o (w : world) out ys s' w' : WI2 s w -> w_step s o w = (out, ys, s', w') -> WI2 s' w'.
  Proof.
    intros I H. unfold SorterWorld.w_step in H. destruct o as [x | p keep |].
    - destruct (tainted K D s); [inversion H; subst; exact I |].
      destruct (w_add s x w) as [[e s1] w1] eqn:E. inversion H; subst. eapply add_WI2; eauto.
    - destruct (tainted K D s); [inversion H; subst; exact I |].
      destruct (w_iter s p keep w) as [[[ys0 e] s1] w1] eqn:E. inversion H; subst. eapply iter_WI2; eauto.
    - destruct (w_close s w) as [[e s1] w1] eqn:E. inversion H; subst.
      destruct (close_f _ _ _ _ _ I E) as (I1 & _). exact I1.
  Qed.

  Lemma reachable_WI2 c al f s w : reachable c al f s w -> WI2 s w.
  Proof. induction 1; [apply WI2_new | eapply step_WI2; eauto]. Qed.

  Lemma run_reachable c al f stop ops : forall s w obs s' w',
    reachable c al f s w -> w_run stop s ops w = (obs, s', w') -> reachable c al f s' w'.
  Proof.
    induction ops as [| o r IH]; intros s w obs s' w' R H; simpl in H.
    - inversion H; subst. exact R.
    - destruct (w_step s o w) as [[[out ys] s1] w1] eqn:E.
      assert (R1 : reachable c al f s1 w1) by (eapply reach_step; eauto).
      destruct (stop && is_raise out); [inversion H; subst; exact R1 |].
      destruct (w_run stop s1 r w1) as [[l s2] w2] eqn:E2. inversion H; subst. eapply IH; eauto.
  Qed.

  (* (a) the operation during which the scheduled call fails reports it *)
  Definition fires (w w' : world) (eno : bool) : Prop := (exists n, flt w = Some (n, eno)) /\ flt w' = None.

  Lemma fsurfx_fires w w' e eno : fsurfx w w' e -> fires w w' eno -> e = Some (OSError eno).
  Proof.
    intros (_ & _ & B) ((n & F) & F'). destruct (B n eno F) as [(n' & X & _) | (_ & X)]; [congruence | exact X].
  Qed.

  Lemma fsurf_fires w w' e eno : fsurf w w' e -> fires w w' eno ->
    e = Some (OSError eno) \/ (eof = true /\ e = Some PlainException).
  Proof.
    intros (_ & _ & B) ((n & F) & F'). destruct (B n eno F) as [(n' & X & _) | (_ & X)]; [congruence | exact X].
  Qed.

  Lemma close_post_fires w w' e eno : close_post w w' None e -> fires w w' eno ->
    e = Some (OSError eno) \/ (eno = true /\ hit D w' = Some COsRemove /\ e = None).
  Proof.
    intros (_ & _ & B) ((n & F) & F'). destruct (B n eno F eq_refl) as [(n' & X & _) | (_ & X)]; [congruence | exact X].
  Qed.

  Lemma close_post_err w w' e : close_post w w' None e -> e <> None -> flt w' = None.
  Proof.
    intros (_ & A0 & B) N. destruct (flt w) as [[n eno] |] eqn:F.
    - destruct (B n eno eq_refl eq_refl) as [(n' & _ & _ & X) | (X & _)]; [contradiction | exact X].
    - destruct (A0 eq_refl) as (_ & _ & X). contradiction.
  Qed.

  Lemma close_post_nofault w w' e : close_post w w' None e -> flt w = None -> e = None.
  Proof. intros (_ & A0 & _) F. destruct (A0 F) as (_ & _ & X). exact X. Qed.

  Theorem step_surfaces (s : wsorter) o (w : world) out ys s' w' eno :
    WI2 s w -> w_step s o w = (out, ys, s', w') -> fires w w' eno ->
    out = ORaise (OSError eno) \/
    (eof = true /\ (exists p k, o = OpIter A p k) /\ out = ORaise PlainException) \/
    (eno = true /\ o = OpClose A /\ hit D w' = Some COsRemove /\ out = OOk).
  Proof.
    intros I H Fi. unfold SorterWorld.w_step in H. destruct o as [x | p keep |].
    - destruct (tainted K D s).
      { inversion H; subst. destruct Fi as ((n & F) & F'). congruence. }
      destruct (w_add s x w) as [[e s1] w1] eqn:E. inversion H; subst. left.
      destruct (add_f _ _ _ _ _ _ E) as ([F | (-> & _)] & _).
      + rewrite (fsurfx_fires _ _ _ _ F Fi). reflexivity.
      + destruct Fi as ((n & F) & F'). congruence.
    - destruct (tainted K D s).
      { inversion H; subst. destruct Fi as ((n & F) & F'). congruence. }
      destruct (w_iter s p keep w) as [[[ys0 e] s1] w1] eqn:E. inversion H; subst.
      destruct (iter_f _ _ _ _ _ _ _ _ E) as ([F | (-> & _)] & _).
      + destruct (fsurf_fires _ _ _ _ F Fi) as [-> | (Ef & ->)]; [left; reflexivity |].
        right. left. split; [exact Ef |]. split; [exists p, keep; reflexivity | reflexivity].
      + destruct Fi as ((n & F) & F'). congruence.
    - destruct (w_close s w) as [[e s1] w1] eqn:E. inversion H; subst.
      destruct (close_f _ _ _ _ _ I E) as (_ & P).
      destruct (close_post_fires _ _ _ _ P Fi) as [-> | (-> & Hh & ->)]; [left; reflexivity | right; right; auto].
  Qed.

  (* without a pending fault nothing the sorter does to its files fails in close() *)
  Theorem close_without_fault (s : wsorter) (w : world) e s' w' :
    WI2 s w -> flt w = None -> w_close s w = (e, s', w') -> e = None.
  Proof. intros I F H. destruct (close_f _ _ _ _ _ I H) as (_ & P). exact (close_post_nofault _ _ _ P F). Qed.

  (* (d) close() until it returns normally: two calls suffice *)
  Lemma close_until_two (s : wsorter) (w : world) cl s' w' : WI2 s w ->
    w_close_until K D 3 s w = (cl, s', w') -> (length cl <= 2)%nat.
  Proof.
    intros I H. simpl in H.
    destruct (w_close s w) as [[e1 s1] w1] eqn:E1. destruct (close_f _ _ _ _ _ I E1) as (I1 & P1).
    destruct e1 as [x1 |]; [| inversion H; subst; simpl; lia].
    pose proof (close_post_err _ _ _ P1 ltac:(discriminate)) as F1.
    destruct (w_close s1 w1) as [[e2 s2] w2] eqn:E2.
    rewrite (close_without_fault _ _ _ _ _ I1 F1 E2) in H. inversion H; subst. simpl. lia.
  Qed.

  Theorem two_closes c al stop ops f obs cl w' :
    w_workload c al stop ops f = (obs, cl, w') -> (length cl <= 2)%nat.
  Proof.
    unfold SorterWorld.w_workload. intros H.
    destruct (w_run stop (wnew K D c al) ops (world0 D f)) as [[obs0 s] w] eqn:E.
    pose proof (reachable_WI2 _ _ _ _ _ (run_reachable c al f stop ops _ _ _ _ _ (reach_init c al f) E)) as I.
    destruct (w_close_until K D 3 s w) as [[cl0 s1] w1] eqn:E2. inversion H; subst.
    eapply close_until_two; eauto.
  Qed.

  (* ---------- the writer ---------- *)
  Notation wwriter := (wwriter A K D).
  Notation wr_add := (wr_add A K D keyf lt enc pick_min).
  Notation wr_close := (wr_close A K D keyf lt dec pick_min eof).

  Inductive wr_reachable (c : nat) (f : option (nat * bool)) : wwriter -> world -> Prop :=
  | wreach_init : wr_reachable c f (wr_new A K D c) (world0 D f)
  | wreach_add wr w x o wr' w' : wr_reachable c f wr w -> wr_add wr x w = (o, wr', w') -> wr_reachable c f wr' w'
  | wreach_close wr w o wr' w' : wr_reachable c f wr w -> wr_close wr w = (o, wr', w') -> wr_reachable c f wr' w'.

  Lemma wr_add_WI2 (wr : wwriter) x (w : world) o wr' w' :
    WI2 (ws A K D wr) w -> wr_add wr x w = (o, wr', w') -> WI2 (ws A K D wr') w'.
  Proof.
    intros I H. unfold SorterWorld.wr_add in H. destruct (tainted K D (ws A K D wr)); [inversion H; subst; exact I |].
    destruct (w_add (ws A K D wr) x w) as [[e s1] w1] eqn:E. inversion H; subst. simpl. eapply add_WI2; eauto.
  Qed.

  Lemma wr_close_WI2 (wr : wwriter) (w : world) o wr' w' :
    WI2 (ws A K D wr) w -> wr_close wr w = (o, wr', w') -> WI2 (ws A K D wr') w'.
  Proof.
    intros I H. unfold SorterWorld.wr_close in H. destruct (tainted K D (ws A K D wr)); [inversion H; subst; exact I |].
    destruct (w_iter (ws A K D wr) (S (total_items K D (ws A K D wr) w)) false w) as [[[ys e] s1] w1] eqn:E.
    pose proof (iter_WI2 _ _ _ _ _ _ _ _ I E) as I1.
    destruct e as [x |]; [inversion H; subst; exact I1 |].
    destruct (w_close s1 w1) as [[e2 s2] w2] eqn:E2. destruct (close_f _ _ _ _ _ I1 E2) as (I2 & _).
    destruct e2; inversion H; subst; exact I2.
  Qed.

  Lemma wr_reachable_WI2 c f wr w : wr_reachable c f wr w -> WI2 (ws A K D wr) w.
  Proof.
    induction 1; [apply WI2_new | eapply wr_add_WI2; eauto | eapply wr_close_WI2; eauto].
  Qed.

  Theorem wr_add_surfaces (wr : wwriter) x (w : world) o wr' w' eno :
    wr_add wr x w = (o, wr', w') -> fires w w' eno -> o = ORaise (OSError eno).
  Proof.
    intros H Fi. unfold SorterWorld.wr_add in H. destruct (tainted K D (ws A K D wr)).
    { inversion H; subst. destruct Fi as ((n & F) & F'). congruence. }
    destruct (w_add (ws A K D wr) x w) as [[e s1] w1] eqn:E. inversion H; subst.
    destruct (add_f _ _ _ _ _ _ E) as ([F | (-> & _)] & _).
    - rewrite (fsurfx_fires _ _ _ _ F Fi). reflexivity.
    - destruct Fi as ((n & F) & F'). congruence.
  Qed.

  Theorem wr_close_surfaces (wr : wwriter) (w : world) o wr' w' eno :
    WI2 (ws A K D wr) w -> wr_close wr w = (o, wr', w') -> fires w w' eno ->
    o = ORaise (OSError eno) \/ (eof = true /\ o = ORaise PlainException) \/
    (eno = true /\ hit D w' = Some COsRemove /\ o = OOk).
  Proof.
    intros I H Fi. unfold SorterWorld.wr_close in H. destruct (tainted K D (ws A K D wr)).
    { inversion H; subst. destruct Fi as ((n & F) & F'). congruence. }
    destruct (w_iter (ws A K D wr) (S (total_items K D (ws A K D wr) w)) false w) as [[[ys e] s1] w1] eqn:E.
    pose proof (iter_WI2 _ _ _ _ _ _ _ _ I E) as I1.
    destruct (iter_f _ _ _ _ _ _ _ _ E) as (F1 & _).
    destruct e as [x |].
    - inversion H; subst. destruct F1 as [F1 | (-> & _)].
      + destruct (fsurf_fires _ _ _ _ F1 Fi) as [X | (Ef & X)]; inversion X; [left; reflexivity | right; left; auto].
      + destruct Fi as ((n & F) & F'). congruence.
    - destruct (w_close s1 w1) as [[e2 s2] w2] eqn:E2. destruct (close_f _ _ _ _ _ I1 E2) as (_ & P).
      assert (Fi1 : fires w1 w' eno -> e2 = Some (OSError eno) \/ (eno = true /\ hit D w' = Some COsRemove /\ e2 = None)).
      { intros X. destruct e2; inversion H; subst; exact (close_post_fires _ _ _ _ P X). }
      assert (Fw1 : exists n', flt w1 = Some (n', eno)).
      { destruct Fi as ((n & F) & F'). destruct F1 as [(_ & _ & B) | (-> & _)]; [| exists n; exact F].
        destruct (B n eno F) as [(n' & X & _) | (_ & [X | (_ & X)])]; [exists n'; exact X | discriminate | discriminate]. }
      assert (Fw' : flt w' = None) by (destruct Fi; assumption).
      assert (W2 : w' = w2) by (destruct e2; inversion H; reflexivity). subst w'.
      destruct (Fi1 (conj Fw1 Fw')) as [-> | (-> & Hh & ->)]; inversion H; subst; [left; reflexivity | right; right; auto].
  Qed.

End Faults.
