(* HeaderSpec.v - MafHeader.from_lines (model/Header.v) equals the expected
   header of spec/SpecHeader.v: one line, the loop, the whole entry point, the
   accessors and the header-level checks (C13). *)
From Coq Require Import Sorted.
From MafVerif Require Import lib.Base lib.Str model.Validation model.Header spec.SpecHeader.

(* the keys of the model and of the spec are the same literals *)
Lemma K_VERSION_eq : K_VERSION = SP_VERSION. Proof. reflexivity. Qed.
Lemma K_ANNOT_eq : K_ANNOT = SP_ANNOT. Proof. reflexivity. Qed.
Lemma K_SORT_eq : K_SORT = SP_SORT. Proof. reflexivity. Qed.
Lemma K_CONTIGS_eq : K_CONTIGS = SP_CONTIGS. Proof. reflexivity. Qed.
Lemma order_names_eq : map so_name so_all = SP_ORDER_NAMES. Proof. reflexivity. Qed.
Lemma coord_names_eq : map so_name (filter so_is_coord so_all) = SP_COORD_NAMES. Proof. reflexivity. Qed.

Lemma str_eqb_sym a b : str_eqb a b = str_eqb b a.
Proof.
  destruct (str_eqb a b) eqn:E.
  - apply str_eqb_eq in E. subst. symmetry. apply str_eqb_refl.
  - apply str_eqb_neq in E. symmetry. apply str_eqb_neq. congruence.
Qed.

(* ---------- sort-order names ---------- *)
Lemma so_of_name_name o : so_of_name (so_name o) = Some o.
Proof. destruct o; reflexivity. Qed.

Lemma so_of_name_some v o : so_of_name v = Some o -> so_name o = v.
Proof.
  unfold so_of_name. intros H. apply find_some in H as [_ H]. now apply str_eqb_eq in H.
Qed.

Lemma so_name_inj o1 o2 : so_name o1 = so_name o2 -> o1 = o2.
Proof.
  intros H. pose proof (so_of_name_name o1) as H1. rewrite H, so_of_name_name in H1. congruence.
Qed.

Lemma existsb_str_in v l : existsb (str_eqb v) l = true <-> In v l.
Proof.
  rewrite existsb_exists. split.
  - intros [x [Hx E]]. apply str_eqb_eq in E. now subst.
  - intros H. exists v. split; [assumption|apply str_eqb_refl].
Qed.

Lemma known_name_iff v : existsb (str_eqb v) SP_ORDER_NAMES = true <-> exists o, so_of_name v = Some o.
Proof.
  rewrite existsb_str_in, <- order_names_eq, in_map_iff. split.
  - intros [o [<- _]]. exists o. apply so_of_name_name.
  - intros [o H]. exists o. split; [now apply so_of_name_some|destruct o; simpl; tauto].
Qed.

Lemma unknown_name v : existsb (str_eqb v) SP_ORDER_NAMES = false -> so_of_name v = None.
Proof.
  intros H. destruct (so_of_name v) eqn:E; [|reflexivity].
  assert (existsb (str_eqb v) SP_ORDER_NAMES = true) by (apply known_name_iff; eauto). congruence.
Qed.

Lemma coord_name_iff v o :
  so_of_name v = Some o -> existsb (str_eqb v) SP_COORD_NAMES = so_is_coord o.
Proof. intros H. apply so_of_name_some in H. subst v. destruct o; reflexivity. Qed.

(* ---------- one line ---------- *)
(* the record a well-formed pragma (key, value) is stored as by from_line *)
Definition base_val (k v : str) : hvalue :=
  if str_eqb k K_CONTIGS then HContigs (split COMMA v)
  else if str_eqb k K_SORT then
    match so_of_name v with Some o => HOrder o [] | None => HText v end
  else HText v.
Definition base_rec (k v : str) : hrec := {| hkey := k; hval := base_val k v |}.

Lemma sort_ne_contigs : str_eqb K_SORT K_CONTIGS = false. Proof. reflexivity. Qed.
Lemma version_ne_contigs : str_eqb K_VERSION K_CONTIGS = false. Proof. reflexivity. Qed.
Lemma version_ne_sort : str_eqb K_VERSION K_SORT = false. Proof. reflexivity. Qed.
Lemma annot_ne_contigs : str_eqb K_ANNOT K_CONTIGS = false. Proof. reflexivity. Qed.
Lemma annot_ne_sort : str_eqb K_ANNOT K_SORT = false. Proof. reflexivity. Qed.
Lemma contigs_ne_sort : str_eqb K_CONTIGS K_SORT = false. Proof. reflexivity. Qed.

Lemma sort_record_plain v o :
  so_of_name v = Some o -> sort_record_of_name v None = Ok {| hkey := K_SORT; hval := HOrder o [] |}.
Proof. unfold sort_record_of_name. intros ->. reflexivity. Qed.

(* from_line is the classification of the spec: same category, same record *)
Lemma hrec_from_line_eq line ln :
  hrec_from_line line ln =
  match classify line with
  | Malformed c => inr (mkerr (diag_code (DMalformed c)) ln)
  | WellFormed k v => inl (base_rec k v)
  end.
Proof.
  unfold hrec_from_line, classify.
  destruct line as [|c body]; [reflexivity|].
  change (startswith (c :: body) [HASH]) with (N.eqb HASH c && true).
  rewrite andb_true_r, (N.eqb_sym HASH c).
  destruct (N.eqb c HASH); [|reflexivity].
  change (tl (c :: body)) with body. change (negb true) with false. cbv iota.
  destruct (split1 SP body) as [key [text|]]; [|reflexivity].
  destruct key as [|k0 key]; [reflexivity|].
  change (negb (nonempty (k0 :: key))) with false. cbv iota.
  destruct (rstrip_ws text) as [|v0 v] eqn:Ev; [reflexivity|].
  change (negb (nonempty (v0 :: v))) with false. cbv iota.
  set (K := k0 :: key). set (V := v0 :: v).
  unfold base_rec, base_val. rewrite <- K_SORT_eq.
  destruct (str_eqb K K_VERSION) eqn:E1.
  { apply str_eqb_eq in E1. rewrite E1, version_ne_sort. cbn [andb]. cbv iota.
    rewrite version_ne_sort, version_ne_contigs. reflexivity. }
  destruct (str_eqb K K_ANNOT) eqn:E2.
  { apply str_eqb_eq in E2. rewrite E2, annot_ne_sort. cbn [andb]. cbv iota.
    rewrite annot_ne_sort, annot_ne_contigs. reflexivity. }
  destruct (str_eqb K K_SORT) eqn:E3.
  { apply str_eqb_eq in E3. rewrite E3. cbn [andb].
    destruct (existsb (str_eqb V) SP_ORDER_NAMES) eqn:E4; cbn [negb]; cbv iota.
    - apply known_name_iff in E4 as [o Ho].
      rewrite (sort_record_plain _ _ Ho), Ho, sort_ne_contigs, str_eqb_refl. reflexivity.
    - apply unknown_name in E4. unfold sort_record_of_name. rewrite E4. reflexivity. }
  cbn [andb]. cbv iota. rewrite E3.
  destruct (str_eqb K K_CONTIGS) eqn:E4.
  { apply str_eqb_eq in E4. rewrite E4. reflexivity. }
  reflexivity.
Qed.

Lemma hrec_from_line_malformed line ln c :
  classify line = Malformed c -> hrec_from_line line ln = inr (mkerr (diag_code (DMalformed c)) ln).
Proof. intros H. now rewrite hrec_from_line_eq, H. Qed.

Lemma hrec_from_line_wellformed line ln k v :
  classify line = WellFormed k v -> hrec_from_line line ln = inl (base_rec k v).
Proof. intros H. now rewrite hrec_from_line_eq, H. Qed.

(* declarative reading of classify *)
Definition wf_pragma (k v : str) : Prop :=
  ~ In SP k /\ k <> [] /\ rstrip_ws v = v /\ v <> [] /\ (k = SP_SORT -> In v SP_ORDER_NAMES).

Lemma classify_wellformed_iff l k v :
  classify l = WellFormed k v <->
  exists text, l = HASH :: k ++ SP :: text /\ ~ In SP k /\ k <> [] /\ v = rstrip_ws text /\ v <> [] /\
               (k = SP_SORT -> In v SP_ORDER_NAMES).
Proof.
  unfold classify. split.
  - destruct l as [|c body]; [discriminate|].
    destruct (N.eqb_spec c HASH) as [->|Hc]; [|discriminate]. cbn [negb].
    pose proof (split1_spec SP body) as Hs.
    destruct (split1 SP body) as [key [text|]]; [|discriminate].
    destruct Hs as [-> Hn].
    destruct key as [|k0 key]; [discriminate|].
    destruct (rstrip_ws text) as [|v0 v1] eqn:Ev; [discriminate|].
    destruct (str_eqb (k0 :: key) SP_SORT) eqn:Es; cbn [andb].
    + destruct (existsb (str_eqb (v0 :: v1)) SP_ORDER_NAMES) eqn:Eo; [|discriminate].
      cbn [negb]. intros H. injection H as <- <-. exists text.
      repeat split; auto; try discriminate. intros _. now apply existsb_str_in.
    + intros H. injection H as <- <-. exists text.
      repeat split; auto; try discriminate. apply str_eqb_neq in Es. congruence.
  - intros [text [-> [Hn [Hk [-> [Hv Hs]]]]]].
    rewrite N.eqb_refl. cbn [negb]. rewrite split1_app by assumption.
    destruct k as [|k0 key]; [congruence|].
    destruct (rstrip_ws text) as [|v0 v1] eqn:Ev; [congruence|].
    destruct (str_eqb (k0 :: key) SP_SORT) eqn:Es; cbn [andb]; [|reflexivity].
    apply str_eqb_eq in Es. apply Hs, existsb_str_in in Es. rewrite Es. reflexivity.
Qed.

Lemma classify_wf_pragma l k v : classify l = WellFormed k v -> wf_pragma k v.
Proof.
  intros H. apply classify_wellformed_iff in H as [text [_ [Hn [Hk [-> [Hv Hs]]]]]].
  unfold wf_pragma. repeat split; auto. apply rstrip_idem.
Qed.

(* a well-formed pragma printed canonically classifies as itself *)
Lemma classify_canonical k v : wf_pragma k v -> classify (HASH :: k ++ SP :: v) = WellFormed k v.
Proof.
  intros [Hn [Hk [Hr [Hv Hs]]]]. apply classify_wellformed_iff. exists v.
  repeat split; auto.
Qed.

(* the record of a well-formed pragma, as the property text reads it *)
Lemma base_rec_shape k v :
  wf_pragma k v ->
  hkey (base_rec k v) = k /\
  (k = K_CONTIGS -> hval (base_rec k v) = HContigs (split COMMA v)) /\
  (k = K_SORT -> exists o, so_name o = v /\ hval (base_rec k v) = HOrder o []) /\
  (k <> K_CONTIGS -> k <> K_SORT -> hval (base_rec k v) = HText v).
Proof.
  intros [_ [_ [_ [_ Hs]]]]. unfold base_rec, base_val. cbn [hkey hval]. repeat split.
  - intros ->. now rewrite str_eqb_refl.
  - intros ->. rewrite sort_ne_contigs, str_eqb_refl.
    specialize (Hs eq_refl). apply existsb_str_in, known_name_iff in Hs as [o Ho].
    exists o. rewrite Ho. split; [now apply so_of_name_some|reflexivity].
  - intros H1 H2. apply str_eqb_neq in H1, H2. now rewrite H1, H2.
Qed.

Lemma hrec_from_line_classify line ln :
  (forall c, classify line = Malformed c ->
             hrec_from_line line ln = inr (mkerr (diag_code (DMalformed c)) ln)) /\
  (forall k v, classify line = WellFormed k v ->
     exists r, hrec_from_line line ln = inl r /\ hkey r = k /\
       (k = K_CONTIGS -> hval r = HContigs (split COMMA v)) /\
       (k = K_SORT -> exists o, so_name o = v /\ hval r = HOrder o []) /\
       (k <> K_CONTIGS -> k <> K_SORT -> hval r = HText v)).
Proof.
  split.
  - intros c. apply hrec_from_line_malformed.
  - intros k v H. exists (base_rec k v). split; [now apply hrec_from_line_wellformed|].
    apply base_rec_shape. eapply classify_wf_pragma; eauto.
Qed.

(* ---------- association lists ---------- *)
Section AssocFacts.
  Context {V : Type}.
  Lemma assoc_app k (a b : list (str * V)) :
    assoc k (a ++ b) = match assoc k a with Some v => Some v | None => assoc k b end.
  Proof.
    induction a as [|[k' v] a IH]; simpl; [reflexivity|].
    destruct (str_eqb k k'); [reflexivity|apply IH].
  Qed.

  Lemma dset_absent k (v : V) d : assoc k d = None -> dset k v d = d ++ [(k, v)].
  Proof.
    induction d as [|[k' v'] d IH]; simpl; [reflexivity|].
    destruct (str_eqb k k'); [discriminate|]. intros H. now rewrite IH.
  Qed.

  Lemma assoc_dset_other k k' (v : V) d : k <> k' -> assoc k (dset k' v d) = assoc k d.
  Proof.
    intros Hne. induction d as [|[k2 v2] d IH]; simpl.
    - apply str_eqb_neq in Hne. now rewrite Hne.
    - destruct (str_eqb k' k2) eqn:E; simpl.
      + apply str_eqb_eq in E. subst k2. apply str_eqb_neq in Hne. now rewrite Hne.
      + destruct (str_eqb k k2); [reflexivity|apply IH].
  Qed.

  Lemma assoc_existsb k (d : list (str * V)) :
    is_some (assoc k d) = existsb (str_eqb k) (map fst d).
  Proof.
    induction d as [|[k' v] d IH]; simpl; [reflexivity|].
    destruct (str_eqb k k'); [reflexivity|apply IH].
  Qed.
End AssocFacts.

(* ---------- the loop of from_lines ---------- *)
Definition to_err (dk : diag * Z) : verr := mkerr (diag_code (fst dk)) (Some (snd dk)).
Definition to_rec (e : Z * str * str) : str * hrec :=
  let '(_, k, v) := e in (k, base_rec k v).
Definition kept_key (e : Z * str * str) : str := snd (fst e).
Definition kept_val (e : Z * str * str) : str := snd e.
Definition kept_pos (e : Z * str * str) : Z := fst (fst e).

Lemma expected_malformed n seen l rest c :
  classify l = Malformed c ->
  expected n seen (l :: rest) =
  (fst (expected (n + 1) seen rest), (DMalformed c, n + 1) :: snd (expected (n + 1) seen rest)).
Proof. intros H. simpl. rewrite H. now destruct (expected (n + 1) seen rest). Qed.

Lemma expected_duplicate n seen l rest k v :
  classify l = WellFormed k v -> existsb (str_eqb k) seen = true ->
  expected n seen (l :: rest) =
  (fst (expected (n + 1) seen rest), (DDuplicate, n + 1) :: snd (expected (n + 1) seen rest)).
Proof. intros H E. simpl. rewrite H, E. now destruct (expected (n + 1) seen rest). Qed.

Lemma expected_kept n seen l rest k v :
  classify l = WellFormed k v -> existsb (str_eqb k) seen = false ->
  expected n seen (l :: rest) =
  ((n + 1, k, v) :: fst (expected (n + 1) (k :: seen) rest), snd (expected (n + 1) (k :: seen) rest)).
Proof. intros H E. simpl. rewrite H, E. now destruct (expected (n + 1) (k :: seen) rest). Qed.

(* `expected` looks at `seen` only through membership *)
Lemma expected_seen_ext lines : forall n s1 s2,
  (forall k, existsb (str_eqb k) s1 = existsb (str_eqb k) s2) ->
  expected n s1 lines = expected n s2 lines.
Proof.
  induction lines as [|l rest IH]; intros n s1 s2 H; [reflexivity|].
  destruct (classify l) as [k v|c] eqn:Ec.
  - destruct (existsb (str_eqb k) s1) eqn:E1.
    + rewrite (expected_duplicate _ _ _ _ _ _ Ec E1). rewrite H in E1.
      rewrite (expected_duplicate _ _ _ _ _ _ Ec E1). now rewrite (IH _ s1 s2 H).
    + rewrite (expected_kept _ _ _ _ _ _ Ec E1). rewrite H in E1.
      rewrite (expected_kept _ _ _ _ _ _ Ec E1).
      rewrite (IH _ (k :: s1) (k :: s2)); [reflexivity|].
      intros k'. simpl. now rewrite H.
  - rewrite !(expected_malformed _ _ _ _ _ Ec). now rewrite (IH _ s1 s2 H).
Qed.

Section WithRegistry.
  Context {C : Type} (registry : list (scheme C)).

  Lemma parse_header_lines_gen lines : forall n seen recs errs,
    (forall k, existsb (str_eqb k) seen = h_contains k recs) ->
    parse_header_lines n lines recs errs =
    (recs ++ map to_rec (fst (expected n seen lines)),
     errs ++ map to_err (snd (expected n seen lines))).
  Proof.
    induction lines as [|l rest IH]; intros n seen recs errs Hseen.
    - simpl. now rewrite !app_nil_r.
    - cbn [parse_header_lines]. rewrite hrec_from_line_eq.
      destruct (classify l) as [k v|c] eqn:Ec.
      + change (hkey (base_rec k v)) with k.
        destruct (h_contains k recs) eqn:Eh.
        * rewrite (expected_duplicate _ seen _ _ _ _ Ec) by (now rewrite Hseen).
          rewrite (IH _ seen _ _ Hseen). cbn [fst snd map]. now rewrite <- app_assoc.
        * rewrite (expected_kept _ seen _ _ _ _ Ec) by (now rewrite Hseen).
          assert (Ha : assoc k recs = None).
          { unfold h_contains in Eh. destruct (assoc k recs); [discriminate|reflexivity]. }
          rewrite (dset_absent _ _ _ Ha).
          rewrite (IH _ (k :: seen)).
          -- cbn [fst snd map to_rec]. now rewrite <- app_assoc.
          -- intros k'. unfold h_contains. rewrite assoc_app. simpl.
             destruct (str_eqb k' k); simpl.
             ++ now destruct (assoc k' recs).
             ++ rewrite Hseen. unfold h_contains. now destruct (assoc k' recs).
      + rewrite (expected_malformed _ seen _ _ _ Ec).
        rewrite (IH _ seen _ _ Hseen). cbn [fst snd map]. now rewrite <- app_assoc.
  Qed.

  (* the loop, started with any dict: the records kept so far play `seen` *)
  Lemma parse_header_lines_spec n lines recs errs :
    parse_header_lines n lines recs errs =
    (recs ++ map to_rec (fst (expected n (map fst recs) lines)),
     errs ++ map to_err (snd (expected n (map fst recs) lines))).
  Proof.
    apply parse_header_lines_gen. intros k. unfold h_contains. now rewrite assoc_existsb.
  Qed.
End WithRegistry.

(* ---------- facts about the expected header ---------- *)
Lemma kept_key_map_cons p k v l :
  map kept_key ((p, k, v) :: l) = k :: map kept_key l.
Proof. reflexivity. Qed.

(* kept keys are new and pairwise different: the first of duplicates wins *)
Lemma expected_keys_fresh lines : forall n seen,
  NoDup (map kept_key (fst (expected n seen lines))) /\
  (forall k, In k (map kept_key (fst (expected n seen lines))) -> ~ In k seen).
Proof.
  induction lines as [|l rest IH]; intros n seen.
  - simpl. split; [constructor|tauto].
  - destruct (classify l) as [k v|c] eqn:Ec.
    + destruct (existsb (str_eqb k) seen) eqn:E.
      * rewrite (expected_duplicate _ _ _ _ _ _ Ec E). apply IH.
      * rewrite (expected_kept _ _ _ _ _ _ Ec E). cbn [fst].
        rewrite kept_key_map_cons.
        destruct (IH (n + 1) (k :: seen)) as [ND Hf]. split.
        -- constructor; [|assumption]. intros H. apply Hf in H. apply H. now left.
        -- intros k' [<-|H].
           ++ intros Hin. apply existsb_str_in in Hin. congruence.
           ++ apply Hf in H. intros Hin. apply H. now right.
    + rewrite (expected_malformed _ _ _ _ _ Ec). apply IH.
Qed.

Lemma expected_keys_nodup n seen lines : NoDup (map kept_key (fst (expected n seen lines))).
Proof. apply expected_keys_fresh. Qed.

(* every kept pragma is the classification of one of the lines *)
Lemma expected_kept_from_line lines : forall n seen p k v,
  In (p, k, v) (fst (expected n seen lines)) ->
  exists l, In l lines /\ classify l = WellFormed k v.
Proof.
  induction lines as [|l rest IH]; intros n seen p k v; [simpl; tauto|].
  destruct (classify l) as [k1 v1|c] eqn:Ec.
  - destruct (existsb (str_eqb k1) seen) eqn:E.
    + rewrite (expected_duplicate _ _ _ _ _ _ Ec E). cbn [fst]. intros H.
      apply IH in H as [l' [Hl Hc]]. exists l'. split; [now right|assumption].
    + rewrite (expected_kept _ _ _ _ _ _ Ec E). cbn [fst]. intros [H|H].
      * injection H as _ <- <-. exists l. split; [now left|assumption].
      * apply IH in H as [l' [Hl Hc]]. exists l'. split; [now right|assumption].
  - rewrite (expected_malformed _ _ _ _ _ Ec). cbn [fst]. intros H.
    apply IH in H as [l' [Hl Hc]]. exists l'. split; [now right|assumption].
Qed.

Lemma expected_kept_wf n seen lines p k v :
  In (p, k, v) (fst (expected n seen lines)) -> wf_pragma k v.
Proof.
  intros H. apply expected_kept_from_line in H as [l [_ Hc]]. eapply classify_wf_pragma; eauto.
Qed.

(* positions.  Line i (0-based) of `lines` has number n + 1 + i; the exact
   content of both output lists, entry by entry. *)
Definition earlier_key (lines : list str) (i : nat) (k : str) : Prop :=
  exists j l' v', (j < i)%nat /\ nth_error lines j = Some l' /\ classify l' = WellFormed k v'.

Lemma earlier_key_cons_iff l rest i k :
  earlier_key (l :: rest) (S i) k <->
  (exists v', classify l = WellFormed k v') \/ earlier_key rest i k.
Proof.
  unfold earlier_key. split.
  - intros [j [l' [v' [Hj [Hn Hc]]]]]. destruct j as [|j]; simpl in Hn.
    + injection Hn as <-. left. eauto.
    + right. exists j, l', v'. repeat split; auto. lia.
  - intros [[v' Hc]|[j [l' [v' [Hj [Hn Hc]]]]]].
    + exists O, l, v'. repeat split; auto. lia.
    + exists (S j), l', v'. repeat split; auto. lia.
Qed.

Lemma earlier_key_zero lines k : ~ earlier_key lines 0 k.
Proof. intros [j [l' [v' [Hj _]]]]. lia. Qed.

Lemma expected_kept_iff lines : forall n seen p k v,
  In (p, k, v) (fst (expected n seen lines)) <->
  exists i l, p = n + 1 + Z.of_nat i /\ nth_error lines i = Some l /\
              classify l = WellFormed k v /\ ~ In k seen /\ ~ earlier_key lines i k.
Proof.
  induction lines as [|l rest IH]; intros n seen p k v.
  - simpl. split; [tauto|]. intros [i [l [_ [H _]]]]. destruct i; discriminate.
  - destruct (classify l) as [k1 v1|c] eqn:Ec.
    + destruct (existsb (str_eqb k1) seen) eqn:E.
      * rewrite (expected_duplicate _ _ _ _ _ _ Ec E). cbn [fst]. rewrite IH. split.
        -- intros [i [l0 [Hp [Hn [Hc [Hs He]]]]]]. exists (S i), l0.
           repeat split; auto; [lia|]. rewrite earlier_key_cons_iff. intros [[v' Hv]|H]; [|tauto].
           rewrite Ec in Hv. injection Hv as -> _. apply existsb_str_in in E. tauto.
        -- intros [i [l0 [Hp [Hn [Hc [Hs He]]]]]]. destruct i as [|i]; simpl in Hn.
           ++ injection Hn as <-. rewrite Ec in Hc. injection Hc as -> _.
              apply existsb_str_in in E. tauto.
           ++ exists i, l0. repeat split; auto; [lia|].
              intros H. apply He. apply earlier_key_cons_iff. now right.
      * rewrite (expected_kept _ _ _ _ _ _ Ec E). cbn [fst]. split.
        -- intros [H|H].
           ++ injection H as <- <- <-. exists O, l. repeat split; auto; [simpl; lia| |apply earlier_key_zero].
              intros Hin. apply existsb_str_in in Hin. congruence.
           ++ apply IH in H as [i [l0 [Hp [Hn [Hc [Hs He]]]]]]. exists (S i), l0.
              repeat split; auto; [lia| |].
              ** intros Hin. apply Hs. now right.
              ** rewrite earlier_key_cons_iff. intros [[v' Hv]|H]; [|tauto].
                 rewrite Ec in Hv. injection Hv as -> _. apply Hs. now left.
        -- intros [i [l0 [Hp [Hn [Hc [Hs He]]]]]]. destruct i as [|i]; simpl in Hn.
           ++ injection Hn as <-. rewrite Ec in Hc. injection Hc as -> ->. left.
              f_equal. f_equal. simpl in Hp. lia.
           ++ right. apply IH. exists i, l0. repeat split; auto; [lia| |].
              ** intros [<-|Hin]; [|tauto]. apply He. apply earlier_key_cons_iff. left. eauto.
              ** intros H. apply He. apply earlier_key_cons_iff. now right.
    + rewrite (expected_malformed _ _ _ _ _ Ec). cbn [fst]. rewrite IH. split.
      * intros [i [l0 [Hp [Hn [Hc [Hs He]]]]]]. exists (S i), l0.
        repeat split; auto; [lia|]. rewrite earlier_key_cons_iff. intros [[v' Hv]|H]; [|tauto].
        rewrite Ec in Hv. discriminate.
      * intros [i [l0 [Hp [Hn [Hc [Hs He]]]]]]. destruct i as [|i]; simpl in Hn.
        -- injection Hn as <-. rewrite Ec in Hc. discriminate.
        -- exists i, l0. repeat split; auto; [lia|].
           intros H. apply He. apply earlier_key_cons_iff. now right.
Qed.

Lemma expected_diag_iff lines : forall n seen d p,
  In (d, p) (snd (expected n seen lines)) <->
  exists i l, p = n + 1 + Z.of_nat i /\ nth_error lines i = Some l /\
    ((exists c, classify l = Malformed c /\ d = DMalformed c) \/
     (exists k v, classify l = WellFormed k v /\ d = DDuplicate /\
                  (In k seen \/ earlier_key lines i k))).
Proof.
  induction lines as [|l rest IH]; intros n seen d p.
  - simpl. split; [tauto|]. intros [i [l [_ [H _]]]]. destruct i; discriminate.
  - destruct (classify l) as [k1 v1|c] eqn:Ec.
    + destruct (existsb (str_eqb k1) seen) eqn:E.
      * rewrite (expected_duplicate _ _ _ _ _ _ Ec E). cbn [snd]. split.
        -- intros [H|H].
           ++ injection H as <- <-. exists O, l. repeat split; [simpl; lia|].
              right. exists k1, v1. repeat split; auto. left. now apply existsb_str_in.
           ++ apply IH in H as [i [l0 [Hp [Hn Hd]]]]. exists (S i), l0.
              repeat split; auto; [lia|].
              destruct Hd as [Hd|[k [v [Hc [Hd Hs]]]]]; [now left|right].
              exists k, v. repeat split; auto. destruct Hs as [Hs|Hs]; [now left|right].
              apply earlier_key_cons_iff. now right.
        -- intros [i [l0 [Hp [Hn Hd]]]]. destruct i as [|i]; simpl in Hn.
           ++ injection Hn as <-. left. destruct Hd as [[c [Hc _]]|[k [v [Hc [-> _]]]]]; [congruence|].
              f_equal. simpl in Hp. lia.
           ++ right. apply IH. exists i, l0. repeat split; auto; [lia|].
              destruct Hd as [Hd|[k [v [Hc [Hd Hs]]]]]; [now left|right].
              exists k, v. repeat split; auto. destruct Hs as [Hs|Hs]; [now left|].
              apply earlier_key_cons_iff in Hs as [[v' Hv]|Hs]; [|now right].
              rewrite Ec in Hv. injection Hv as -> _. left. now apply existsb_str_in.
      * rewrite (expected_kept _ _ _ _ _ _ Ec E). cbn [snd]. rewrite IH. split.
        -- intros [i [l0 [Hp [Hn Hd]]]]. exists (S i), l0. repeat split; auto; [lia|].
           destruct Hd as [Hd|[k [v [Hc [Hd Hs]]]]]; [now left|right].
           exists k, v. repeat split; auto. rewrite earlier_key_cons_iff.
           destruct Hs as [[<-|Hs]|Hs]; [right; left; eauto|now left|now right; right].
        -- intros [i [l0 [Hp [Hn Hd]]]]. destruct i as [|i]; simpl in Hn.
           ++ injection Hn as <-. exfalso.
              destruct Hd as [[c [Hc _]]|[k [v [Hc [_ Hs]]]]]; [congruence|].
              rewrite Ec in Hc. injection Hc as <- <-.
              destruct Hs as [Hs|Hs]; [|now apply earlier_key_zero in Hs].
              apply existsb_str_in in Hs. congruence.
           ++ exists i, l0. repeat split; auto; [lia|].
              destruct Hd as [Hd|[k [v [Hc [Hd Hs]]]]]; [now left|right].
              exists k, v. repeat split; auto. destruct Hs as [Hs|Hs]; [left; now right|].
              apply earlier_key_cons_iff in Hs as [[v' Hv]|Hs]; [|now right].
              rewrite Ec in Hv. injection Hv as -> _. left. now left.
    + rewrite (expected_malformed _ _ _ _ _ Ec). cbn [snd]. split.
      * intros [H|H].
        -- injection H as <- <-. exists O, l. repeat split; [simpl; lia|]. left. eauto.
        -- apply IH in H as [i [l0 [Hp [Hn Hd]]]]. exists (S i), l0. repeat split; auto; [lia|].
           destruct Hd as [Hd|[k [v [Hc [Hd Hs]]]]]; [now left|right].
           exists k, v. repeat split; auto. destruct Hs as [Hs|Hs]; [now left|right].
           apply earlier_key_cons_iff. now right.
      * intros [i [l0 [Hp [Hn Hd]]]]. destruct i as [|i]; simpl in Hn.
        -- injection Hn as <-. left.
           destruct Hd as [[c' [Hc ->]]|[k [v [Hc _]]]]; [|congruence].
           rewrite Ec in Hc. injection Hc as <-. f_equal. simpl in Hp. lia.
        -- right. apply IH. exists i, l0. repeat split; auto; [lia|].
           destruct Hd as [Hd|[k [v [Hc [Hd Hs]]]]]; [now left|right].
           exists k, v. repeat split; auto. destruct Hs as [Hs|Hs]; [now left|].
           apply earlier_key_cons_iff in Hs as [[v' Hv]|Hs]; [|now right].
           rewrite Ec in Hv. discriminate.
Qed.

(* both outputs are in line order; every line yields exactly one entry *)
Lemma expected_sorted lines : forall n seen,
  StronglySorted Z.lt (map kept_pos (fst (expected n seen lines))) /\
  StronglySorted Z.lt (map snd (snd (expected n seen lines))) /\
  Forall (fun p => n < p) (map kept_pos (fst (expected n seen lines))) /\
  Forall (fun p => n < p) (map snd (snd (expected n seen lines))) /\
  (length (fst (expected n seen lines)) + length (snd (expected n seen lines)) = length lines)%nat.
Proof.
  induction lines as [|l rest IH]; intros n seen.
  - simpl. repeat split; constructor.
  - assert (Mono : forall (ps : list Z), Forall (fun p => n + 1 < p) ps -> Forall (fun p => n < p) ps).
    { intros ps H. eapply Forall_impl; [|exact H]. simpl. intros; lia. }
    destruct (classify l) as [k1 v1|c] eqn:Ec.
    + destruct (existsb (str_eqb k1) seen) eqn:E.
      * rewrite (expected_duplicate _ _ _ _ _ _ Ec E). cbn [fst snd map length].
        destruct (IH (n + 1) seen) as [S1 [S2 [F1 [F2 L]]]].
        repeat split; auto; [constructor; auto|constructor; [lia|auto]|lia].
      * rewrite (expected_kept _ _ _ _ _ _ Ec E). cbn [fst snd map length].
        destruct (IH (n + 1) (k1 :: seen)) as [S1 [S2 [F1 [F2 L]]]].
        repeat split; auto; [constructor; auto|constructor; [unfold kept_pos; simpl; lia|auto]|lia].
    + rewrite (expected_malformed _ _ _ _ _ Ec). cbn [fst snd map length].
      destruct (IH (n + 1) seen) as [S1 [S2 [F1 [F2 L]]]].
      repeat split; auto; [constructor; auto|constructor; [lia|auto]|lia].
Qed.

(* ---------- the value a kept pragma is stored as in the finished header ---------- *)
Definition value_of (p : pragma_value) : hvalue :=
  match p with
  | PText s => HText s
  | PContigs l => HContigs l
  | POrder name cs =>
      match so_of_name name with Some o => HOrder o cs | None => HText name end
  end.

(* the same as a relation, without a default for unknown order names (which a
   kept pragma never has) *)
Inductive reflects : pragma_value -> hvalue -> Prop :=
| R_text s : reflects (PText s) (HText s)
| R_contigs l : reflects (PContigs l) (HContigs l)
| R_order o cs : reflects (POrder (so_name o) cs) (HOrder o cs).

Lemma reflects_fun p a b : reflects p a -> reflects p b -> a = b.
Proof.
  intros Ha Hb. destruct Ha; inversion Hb; subst; try reflexivity.
  match goal with H : so_name _ = so_name _ |- _ => apply so_name_inj in H; now subst end.
Qed.

Definition final_rec (K : list (Z * str * str)) (e : Z * str * str) : str * hrec :=
  (kept_key e, {| hkey := kept_key e; hval := value_of (interpret K (kept_key e) (kept_val e)) |}).

Definition order_contigs (K : list (Z * str * str)) (v : str) : list str :=
  if existsb (str_eqb v) SP_COORD_NAMES
  then match kept_value SP_CONTIGS K with Some cs => split COMMA cs | None => [] end
  else [].

Lemma interpret_eq K k v :
  interpret K k v =
  if str_eqb k K_CONTIGS then PContigs (split COMMA v)
  else if str_eqb k K_SORT then POrder v (order_contigs K v) else PText v.
Proof. reflexivity. Qed.

Lemma interpret_ext K K' k v :
  kept_value SP_CONTIGS K = kept_value SP_CONTIGS K' -> interpret K k v = interpret K' k v.
Proof. intros H. rewrite !interpret_eq. unfold order_contigs. now rewrite H. Qed.

Lemma reflects_interpret K k v :
  wf_pragma k v -> reflects (interpret K k v) (value_of (interpret K k v)).
Proof.
  intros [_ [_ [_ [_ Hs]]]]. rewrite interpret_eq.
  destruct (str_eqb k K_CONTIGS); [constructor|].
  destruct (str_eqb k K_SORT) eqn:E; [|constructor].
  apply str_eqb_eq in E. apply Hs, existsb_str_in, known_name_iff in E as [o Ho].
  cbn [value_of]. rewrite Ho. apply so_of_name_some in Ho. subst v. constructor.
Qed.

Lemma final_vs_base K p k v :
  k <> K_SORT \/ order_contigs K v = [] -> final_rec K (p, k, v) = to_rec (p, k, v).
Proof.
  intros H. unfold final_rec, to_rec, base_rec, base_val, kept_key, kept_val. cbn [fst snd].
  rewrite interpret_eq. f_equal. f_equal.
  destruct (str_eqb k K_CONTIGS); [reflexivity|].
  destruct (str_eqb k K_SORT) eqn:E; [|reflexivity].
  apply str_eqb_eq in E. destruct H as [H|H]; [congruence|]. now rewrite H.
Qed.

Lemma final_sort K p v o :
  so_of_name v = Some o ->
  final_rec K (p, K_SORT, v) = (K_SORT, {| hkey := K_SORT; hval := HOrder o (order_contigs K v) |}).
Proof.
  intros H. unfold final_rec, kept_key, kept_val. cbn [fst snd].
  rewrite interpret_eq, sort_ne_contigs, str_eqb_refl. cbn [value_of]. now rewrite H.
Qed.

Lemma kept_value_in k l v : kept_value k l = Some v -> exists p, In (p, k, v) l.
Proof.
  induction l as [|[[p k'] v'] l IH]; simpl; [discriminate|].
  destruct (str_eqb k k') eqn:E.
  - apply str_eqb_eq in E. subst. intros H. injection H as ->. eauto.
  - intros H. destruct (IH H) as [p' Hp]. eauto.
Qed.

Lemma kept_value_none k l : kept_value k l = None -> ~ In k (map kept_key l).
Proof.
  induction l as [|[[p k'] v'] l IH]; simpl; [tauto|].
  destruct (str_eqb k k') eqn:E; [discriminate|]. apply str_eqb_neq in E.
  intros H [H1|H1]; [unfold kept_key in H1; simpl in H1; congruence|]. now apply IH.
Qed.

Lemma in_kept_value k l p v :
  NoDup (map kept_key l) -> In (p, k, v) l -> kept_value k l = Some v.
Proof.
  induction l as [|[[p' k'] v'] l IH]; simpl; [tauto|].
  intros ND [H|H].
  - injection H as -> -> ->. now rewrite str_eqb_refl.
  - inversion ND as [|? ? Hn ND']; subst.
    destruct (str_eqb k k') eqn:E; [|auto].
    apply str_eqb_eq in E. subst. exfalso. apply Hn.
    change (kept_key (p', k', v')) with (kept_key (p, k', v)). now apply in_map.
Qed.

Lemma assoc_to_rec k l :
  assoc k (map to_rec l) = option_map (base_rec k) (kept_value k l).
Proof.
  induction l as [|[[p k'] v'] l IH]; simpl; [reflexivity|].
  destruct (str_eqb k k') eqn:E; [|apply IH].
  apply str_eqb_eq in E. now subst.
Qed.

Lemma assoc_final K k l :
  assoc k (map (final_rec K) l) =
  option_map (fun v => {| hkey := k; hval := value_of (interpret K k v) |}) (kept_value k l).
Proof.
  induction l as [|[[p k'] v'] l IH]; [reflexivity|].
  cbn [map final_rec kept_key kept_val fst snd assoc kept_value].
  destruct (str_eqb k k') eqn:E; [|apply IH].
  apply str_eqb_eq in E. now subst.
Qed.

Lemma dset_map_nodup {X} (key : X -> str) (f : X -> str * hrec) k0 r l :
  (forall e, fst (f e) = key e) -> NoDup (map key l) -> In k0 (map key l) ->
  dset k0 r (map f l) = map (fun e => if str_eqb k0 (key e) then (k0, r) else f e) l.
Proof.
  intros Hf. induction l as [|e l IH]; simpl; [tauto|].
  intros ND Hin. inversion ND as [|? ? Hn ND']; subst.
  specialize (Hf e) as He. destruct (f e) as [ke re] eqn:Efe. simpl in He. subst ke.
  destruct (str_eqb k0 (key e)) eqn:E.
  - f_equal. apply map_ext_in. intros e' He'.
    apply str_eqb_eq in E. subst k0.
    destruct (str_eqb (key e) (key e')) eqn:E'; [|reflexivity].
    apply str_eqb_eq in E'. exfalso. apply Hn. rewrite E'. now apply in_map.
  - f_equal. apply IH; [assumption|]. apply str_eqb_neq in E.
    destruct Hin as [H|H]; [congruence|assumption].
Qed.

Section FromLines.
  Context {C : Type} (registry : list (scheme C)).

  Lemma h_contigs_to_rec K :
    h_contigs (map to_rec K) = option_map (split COMMA) (kept_value SP_CONTIGS K).
  Proof.
    unfold h_contigs. rewrite assoc_to_rec, <- K_CONTIGS_eq.
    destruct (kept_value K_CONTIGS K); [|reflexivity].
    unfold option_map, base_rec, base_val, hval. now rewrite str_eqb_refl.
  Qed.

  Lemma h_sort_order_to_rec K :
    h_sort_order (map to_rec K) =
    match kept_value SP_SORT K with
    | Some v => match so_of_name v with Some o => (o, []) | None => (SoUnsorted, []) end
    | None => (SoUnsorted, [])
    end.
  Proof.
    unfold h_sort_order. rewrite assoc_to_rec, <- K_SORT_eq.
    destruct (kept_value K_SORT K) as [v|]; [|reflexivity].
    unfold option_map, base_rec, base_val, hval. rewrite sort_ne_contigs, str_eqb_refl.
    now destruct (so_of_name v).
  Qed.

  (* the contigs re-application turns the stored records into the final ones *)
  Lemma reapply_contigs_kept K :
    NoDup (map kept_key K) ->
    (forall p k v, In (p, k, v) K -> wf_pragma k v) ->
    reapply_contigs (map to_rec K) = Ok (map (final_rec K) K).
  Proof.
    intros ND Hwf.
    assert (Same : (forall p v, In (p, K_SORT, v) K -> order_contigs K v = []) ->
                   map to_rec K = map (final_rec K) K).
    { intros H. apply map_ext_in. intros [[p k] v] Hin. symmetry. apply final_vs_base.
      destruct (str_eqb k K_SORT) eqn:E; [right|left; now apply str_eqb_neq].
      apply str_eqb_eq in E. subst k. eauto. }
    unfold reapply_contigs. rewrite h_contigs_to_rec.
    destruct (kept_value SP_CONTIGS K) as [c|] eqn:Ec; cbn [option_map].
    2:{ rewrite Same; [reflexivity|]. intros p v _. unfold order_contigs. rewrite Ec.
        now destruct (existsb (str_eqb v) SP_COORD_NAMES). }
    pose proof (split_nonempty COMMA c) as Hne.
    destruct (split COMMA c) as [|c0 cs] eqn:Esp; [congruence|]. cbn [nonempty].
    rewrite h_sort_order_to_rec.
    destruct (kept_value SP_SORT K) as [v|] eqn:Es.
    2:{ cbn [so_is_coord]. rewrite Same; [reflexivity|]. intros p v Hin. exfalso.
        apply kept_value_none in Es. apply Es. rewrite <- K_SORT_eq.
        change K_SORT with (kept_key (p, K_SORT, v)). now apply in_map. }
    destruct (kept_value_in _ _ _ Es) as [p Hin]. rewrite <- K_SORT_eq in Hin.
    destruct (Hwf _ _ _ Hin) as [_ [_ [_ [_ Hs]]]].
    specialize (Hs K_SORT_eq). apply existsb_str_in, known_name_iff in Hs as [o Ho].
    rewrite Ho.
    assert (Hv : forall p' v', In (p', K_SORT, v') K -> v' = v).
    { intros p' v' H. apply (in_kept_value _ _ _ _ ND) in H. rewrite K_SORT_eq in H. congruence. }
    destruct (so_is_coord o) eqn:Eco.
    - unfold sort_record_of_name. rewrite so_of_name_name, Eco. cbn [nonempty andb].
      rewrite (dset_map_nodup kept_key to_rec).
      + f_equal. apply map_ext_in. intros [[p' k'] v'] Hin'. cbn [kept_key fst snd].
        destruct (str_eqb K_SORT k') eqn:E.
        * apply str_eqb_eq in E. subst k'. rewrite (Hv _ _ Hin'), (final_sort _ _ _ _ Ho).
          unfold order_contigs. rewrite (coord_name_iff _ _ Ho), Eco, Ec, Esp. reflexivity.
        * symmetry. apply final_vs_base. left. apply str_eqb_neq in E. congruence.
      + now intros [[? ?] ?].
      + assumption.
      + change K_SORT with (kept_key (p, K_SORT, v)). now apply in_map.
    - rewrite Same; [reflexivity|]. intros p' v' H. rewrite (Hv _ _ H).
      unfold order_contigs. now rewrite (coord_name_iff _ _ Ho), Eco.
  Qed.

  (* scheme(): find_scheme only ever raises ValueError, which is caught *)
  Lemma h_scheme_ok (recs : list (str * hrec)) : exists sch, h_scheme registry recs = Ok sch.
  Proof.
    unfold h_scheme, find_scheme, find_scheme_class.
    destruct (falsy_ostr (h_version recs) && falsy_ostr (h_annotation recs)); [eauto|].
    destruct (falsy_ostr (h_annotation recs)).
    - destruct (find _ registry) as [s|]; [destruct (s_norestr s)|]; eauto.
    - destruct (falsy_ostr (h_version recs)).
      + destruct (find _ registry) as [s|]; [destruct (s_norestr s)|]; eauto.
      + destruct (find _ registry) as [s|]; [destruct (s_norestr s)|]; eauto.
  Qed.

  Definition mode_of (m : option mode) : mode := match m with None => Silent | Some x => x end.

  (* from_lines, any stringency: the records are the kept pragmas, the errors
     are the diagnostics followed by the header-level checks; the stringency
     only decides what happens with them *)
  Theorem from_lines_spec_any_mode lines m lg :
    let K := fst (expected_header lines) in
    let recs := map (final_rec K) K in
    exists sch, h_scheme registry recs = Ok sch /\
      let errs := map to_err (snd (expected_header lines)) ++ validate_errs registry recs sch in
      header_from_lines registry lines m lg =
      obind (process (mode_of m) lg errs)
            (fun _ => oret {| hrecs := recs; herrs := errs; hmode := mode_of m |}).
  Proof.
    intros K recs. destruct (h_scheme_ok recs) as [sch Hsch]. exists sch. split; [assumption|].
    intros errs. unfold header_from_lines.
    rewrite parse_header_lines_spec. cbn [header_new hrecs herrs hmode map app].
    fold (mode_of m). change (expected 0 [] lines) with (expected_header lines). fold K.
    rewrite reapply_contigs_kept.
    - fold recs. unfold header_validate. cbn [hrecs herrs hmode]. rewrite Hsch. reflexivity.
    - apply expected_keys_nodup.
    - intros p k v. apply expected_kept_wf.
  Qed.

  (* the C13 statement: silent parsing returns the expected header *)
  Theorem from_lines_spec lines lg :
    let K := fst (expected_header lines) in
    let recs := map (final_rec K) K in
    exists sch, h_scheme registry recs = Ok sch /\
      header_from_lines registry lines (Some Silent) lg =
      ([], Ok {| hrecs := recs;
                 herrs := map to_err (snd (expected_header lines)) ++ validate_errs registry recs sch;
                 hmode := Silent |}).
  Proof.
    intros K recs. destruct (from_lines_spec_any_mode lines (Some Silent) lg) as [sch [Hs H]].
    exists sch. split; [assumption|]. fold K recs in H. rewrite H. cbn [mode_of].
    unfold process. destruct (_ ++ _); reflexivity.
  Qed.
End FromLines.

Lemma obind_process_ok {X} m lg errs (x : X) l h :
  obind (process m lg errs) (fun _ => oret x) = (l, Ok h) -> h = x.
Proof.
  unfold process. destruct errs as [|e0 errs]; [cbn; congruence|].
  destruct m; cbn; congruence.
Qed.

Lemma existsb_map {X Y} (f : X -> Y) (p : Y -> bool) l :
  existsb p (map f l) = existsb (fun x => p (f x)) l.
Proof. induction l as [|x l IH]; simpl; [reflexivity|]. now rewrite IH. Qed.

Section Accessors.
  Context {C : Type} (registry : list (scheme C)).

  (* whatever the stringency: a returned header holds the expected records,
     and its errors are the diagnostics followed by the header-level checks *)
  Lemma from_lines_ok lines m lg l h :
    header_from_lines registry lines m lg = (l, Ok h) ->
    let K := fst (expected_header lines) in
    hrecs h = map (final_rec K) K /\
    exists sch, h_scheme registry (hrecs h) = Ok sch /\
      herrs h = map to_err (snd (expected_header lines)) ++ validate_errs registry (hrecs h) sch.
  Proof.
    intros H. destruct (from_lines_spec_any_mode registry lines m lg) as [sch [Hs Hf]].
    cbv zeta in Hs, Hf. rewrite Hf in H. apply obind_process_ok in H. subst h.
    cbn [hrecs herrs]. split; [reflexivity|]. exists sch. split; [assumption|reflexivity].
  Qed.

  Lemma from_lines_ok_recs lines m lg l h :
    header_from_lines registry lines m lg = (l, Ok h) ->
    hrecs h = map (final_rec (fst (expected_header lines))) (fst (expected_header lines)).
  Proof. intros H. now apply from_lines_ok in H as [H _]. Qed.

  (* ----- accessors of the finished records, for any kept list ----- *)
  Lemma h_version_final K : h_version (map (final_rec K) K) = kept_value SP_VERSION K.
  Proof.
    unfold h_version. rewrite assoc_final, <- K_VERSION_eq.
    destruct (kept_value K_VERSION K) as [v|]; [|reflexivity].
    unfold option_map, hval. now rewrite interpret_eq, version_ne_contigs, version_ne_sort.
  Qed.

  Lemma h_annotation_final K : h_annotation (map (final_rec K) K) = kept_value SP_ANNOT K.
  Proof.
    unfold h_annotation. rewrite assoc_final, <- K_ANNOT_eq.
    destruct (kept_value K_ANNOT K) as [v|]; [|reflexivity].
    unfold option_map, hval. now rewrite interpret_eq, annot_ne_contigs, annot_ne_sort.
  Qed.

  Lemma h_contigs_final K :
    h_contigs (map (final_rec K) K) = option_map (split COMMA) (kept_value SP_CONTIGS K).
  Proof.
    unfold h_contigs. rewrite assoc_final, <- K_CONTIGS_eq.
    destruct (kept_value K_CONTIGS K) as [v|]; [|reflexivity].
    unfold option_map, hval. now rewrite interpret_eq, str_eqb_refl.
  Qed.

  Lemma h_sort_order_final_none K :
    kept_value SP_SORT K = None -> h_sort_order (map (final_rec K) K) = (SoUnsorted, []).
  Proof.
    intros H. unfold h_sort_order. rewrite assoc_final.
    change (kept_value K_SORT K) with (kept_value SP_SORT K). now rewrite H.
  Qed.

  Lemma h_sort_order_final_some K v :
    (forall p k v, In (p, k, v) K -> wf_pragma k v) ->
    kept_value SP_SORT K = Some v ->
    exists o cs, interpret K SP_SORT v = POrder (so_name o) cs /\ so_name o = v /\
                 h_sort_order (map (final_rec K) K) = (o, cs).
  Proof.
    intros Hwf H. unfold h_sort_order. rewrite assoc_final.
    change (kept_value K_SORT K) with (kept_value SP_SORT K). rewrite H.
    destruct (kept_value_in _ _ _ H) as [p Hin].
    destruct (Hwf _ _ _ Hin) as [_ [_ [_ [_ Hs]]]]. specialize (Hs eq_refl).
    apply existsb_str_in, known_name_iff in Hs as [o Ho].
    exists o, (order_contigs K v). change SP_SORT with K_SORT.
    unfold option_map, hval. rewrite interpret_eq, sort_ne_contigs, str_eqb_refl.
    cbn [value_of]. rewrite Ho. apply so_of_name_some in Ho. now rewrite Ho.
  Qed.

  Theorem accessors_spec lines m lg l h :
    header_from_lines registry lines m lg = (l, Ok h) ->
    let K := fst (expected_header lines) in
    h_version (hrecs h) = kept_value SP_VERSION K /\
    h_annotation (hrecs h) = kept_value SP_ANNOT K /\
    h_contigs (hrecs h) = option_map (split COMMA) (kept_value SP_CONTIGS K) /\
    (kept_value SP_SORT K = None -> h_sort_order (hrecs h) = (SoUnsorted, [])) /\
    (forall v, kept_value SP_SORT K = Some v ->
       exists o cs, interpret K SP_SORT v = POrder (so_name o) cs /\ so_name o = v /\
                    h_sort_order (hrecs h) = (o, cs)).
  Proof.
    intros H K. apply from_lines_ok_recs in H. fold K in H. rewrite H.
    split; [apply h_version_final|]. split; [apply h_annotation_final|].
    split; [apply h_contigs_final|]. split; [apply h_sort_order_final_none|].
    intros v. apply h_sort_order_final_some. intros p k v'. apply expected_kept_wf.
  Qed.

  (* ----- the header-level checks as a decision table ----- *)
  Definition version_known (recs : list (str * hrec)) : bool :=
    match assoc K_VERSION recs with
    | Some r => existsb (fun s => hval_is_text (hval r) (s_version s)) registry
    | None => false
    end.
  Definition annot_known (recs : list (str * hrec)) : bool :=
    match assoc K_ANNOT recs with
    | Some r => existsb (fun s => hval_is_text (hval r) (s_annot s)) registry
    | None => false
    end.
  Definition sch_basic (sch : option (scheme C)) : bool :=
    match sch with Some s => s_is_basic s | None => false end.

  Lemma known_iff (f : scheme C -> str) hv :
    existsb (fun s => hval_is_text hv (f s)) registry = true <->
    exists t, hv = HText t /\ In t (map f registry).
  Proof.
    rewrite existsb_exists. split.
    - intros [s [Hs E]]. destruct hv as [t| |]; try discriminate.
      apply str_eqb_eq in E. exists t. split; [reflexivity|]. rewrite E. now apply in_map.
    - intros [t [-> Hin]]. apply in_map_iff in Hin as [s [<- Hs]].
      exists s. split; [assumption|apply str_eqb_refl].
  Qed.

  Theorem checks_decision_table recs sch :
    map etpe (validate_errs registry recs sch) =
    header_checks (h_contains K_VERSION recs) (version_known recs) (sch_basic sch)
                  (h_contains K_ANNOT recs) (annot_known recs) /\
    Forall (fun e => eline e = None) (validate_errs registry recs sch).
  Proof.
    unfold validate_errs, header_checks, version_known, annot_known, h_contains, sch_basic.
    destruct (assoc K_VERSION recs) as [rv|]; cbn [is_some is_none negb];
    [destruct (existsb _ registry)|];
    (destruct (match sch with Some s => s_is_basic s | None => false end);
     [destruct (assoc K_ANNOT recs) as [ra|]
     |destruct (assoc K_ANNOT recs) as [ra|]; [destruct (existsb _ registry)|]]);
    cbn; (split; [reflexivity|repeat constructor]).
  Qed.

  (* for a parsed header the inputs of the table are read off the kept pragmas *)
  Theorem parsed_checks lines m lg l h sch :
    header_from_lines registry lines m lg = (l, Ok h) ->
    let K := fst (expected_header lines) in
    map etpe (validate_errs registry (hrecs h) sch) =
    header_checks (is_some (kept_value SP_VERSION K))
                  (match kept_value SP_VERSION K with
                   | Some v => existsb (str_eqb v) (map s_version registry) | None => false end)
                  (sch_basic sch)
                  (is_some (kept_value SP_ANNOT K))
                  (match kept_value SP_ANNOT K with
                   | Some v => existsb (str_eqb v) (map s_annot registry) | None => false end).
  Proof.
    intros H K. apply from_lines_ok_recs in H. fold K in H.
    rewrite (proj1 (checks_decision_table _ _)), H.
    unfold h_contains, version_known, annot_known. rewrite !assoc_final.
    rewrite <- K_VERSION_eq, <- K_ANNOT_eq. f_equal.
    - now destruct (kept_value K_VERSION K).
    - destruct (kept_value K_VERSION K) as [v|]; [|reflexivity].
      unfold option_map, hval. rewrite interpret_eq, version_ne_contigs, version_ne_sort.
      cbn [value_of]. now rewrite existsb_map.
    - now destruct (kept_value K_ANNOT K).
    - destruct (kept_value K_ANNOT K) as [v|]; [|reflexivity].
      unfold option_map, hval. rewrite interpret_eq, annot_ne_contigs, annot_ne_sort.
      cbn [value_of]. now rewrite existsb_map.
  Qed.
End Accessors.

(* ---------- the expected header of a whole input, read entry by entry ---------- *)
(* kept: exactly the first well-formed line of every key, at its 1-based number *)
Lemma header_kept_iff lines p k v :
  In (p, k, v) (fst (expected_header lines)) <->
  exists i l, p = Z.of_nat i + 1 /\ nth_error lines i = Some l /\
              classify l = WellFormed k v /\ ~ earlier_key lines i k.
Proof.
  unfold expected_header. rewrite expected_kept_iff. split.
  - intros [i [l [Hp [Hn [Hc [_ He]]]]]]. exists i, l. repeat split; auto. lia.
  - intros [i [l [Hp [Hn [Hc He]]]]]. exists i, l. repeat split; auto. lia.
Qed.

(* diagnostics: exactly the malformed lines (with their category) and the
   well-formed lines whose key an earlier well-formed line has, at their
   1-based number *)
Lemma header_diag_iff lines d p :
  In (d, p) (snd (expected_header lines)) <->
  exists i l, p = Z.of_nat i + 1 /\ nth_error lines i = Some l /\
    ((exists c, classify l = Malformed c /\ d = DMalformed c) \/
     (exists k v, classify l = WellFormed k v /\ d = DDuplicate /\ earlier_key lines i k)).
Proof.
  unfold expected_header. rewrite expected_diag_iff. split.
  - intros [i [l [Hp [Hn Hd]]]]. exists i, l. repeat split; auto; [lia|].
    destruct Hd as [Hd|[k [v [Hc [Hd [[]|He]]]]]]; [now left|right; eauto].
  - intros [i [l [Hp [Hn Hd]]]]. exists i, l. repeat split; auto; [lia|].
    destruct Hd as [Hd|[k [v [Hc [Hd He]]]]]; [now left|right]. exists k, v. auto.
Qed.

Lemma header_in_line_order lines :
  StronglySorted Z.lt (map kept_pos (fst (expected_header lines))) /\
  StronglySorted Z.lt (map snd (snd (expected_header lines))) /\
  (length (fst (expected_header lines)) + length (snd (expected_header lines)) = length lines)%nat.
Proof.
  destruct (expected_sorted lines 0 []) as [S1 [S2 [_ [_ L]]]]. auto.
Qed.

Lemma header_keys_nodup lines : NoDup (map kept_key (fst (expected_header lines))).
Proof. apply expected_keys_nodup. Qed.

(* every finished record has its own key and holds what `interpret` says *)
Lemma final_rec_reflects lines p k v :
  let K := fst (expected_header lines) in
  In (p, k, v) K ->
  exists hv, final_rec K (p, k, v) = (k, {| hkey := k; hval := hv |}) /\
             reflects (interpret K k v) hv.
Proof.
  intros K Hin. exists (value_of (interpret K k v)). split; [reflexivity|].
  apply reflects_interpret. eapply expected_kept_wf; eauto.
Qed.
