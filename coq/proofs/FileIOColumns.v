(* FileIOColumns.v - C02 for the built-in layouts: the concrete column model
   (model/ColsemColumns.v) satisfies the two hypotheses of the round-trip
   theorems - record_fixpoint is C04's field fixpoint (proofs/RenderFacts.v) -
   and the layouts built from the regenerated definitions satisfy the layout
   premises (column classes covered by C04: proofs/RenderFacts2.v; names the
   format can carry: boolean sweep below).  The class table and the oracle stay
   abstract in the instance laws; the concrete facts are vm_compute sweeps over
   `layouts_ok`. *)
From Coq Require Import String.
From MafVerif Require Import lib.Base lib.Str lib.PyInt gen.GenClasses gen.GenEnums
  model.Classes model.Columns model.Layouts model.RecordOps model.Validation model.Header
  model.RecordParse model.Reader model.WriterMode model.FileIO model.ColsemColumns
  proofs.LayoutFacts proofs.ColumnFacts proofs.RenderFacts proofs.RenderFacts2
  proofs.FileIOText proofs.FileIORecord proofs.FileIOWrite proofs.FileIORead proofs.FileIORows
  proofs.FileIORoundTrip proofs.FileIOTheorems proofs.FileIOParsed.

(* ---------- instance laws, tables abstract ---------- *)
Section Laws.
  Variable tbl : list class_info.
  Variable Or : oracles.
  Hypothesis HO : oracle_laws Or.
  Notation sem := (columns_sem tbl Or).

  (* the class is one C04 covers / covers without side condition *)
  Definition cref_ok (c : cref) : bool :=
    match resolve tbl c with Some r => e_custom (r_self r) && class_ok r | None => false end.
  Definition cref_strict (c : cref) : bool :=
    match resolve tbl c with Some r => e_custom (r_self r) && class_strict_ok r | None => false end.

  (* where C04's field fixpoint does not apply: a class it does not cover, or
     (only for the non-strict list classes) a one-element list whose element
     renders as the empty text *)
  Definition columns_hazard (c : cref) (v : pyval) : bool :=
    negb (cref_ok c) || (negb (cref_strict c) && single_empty v).

  Lemma columns_isinst_plain : cs_isinst sem CPlain CPlain = true.
  Proof. reflexivity. Qed.

  Lemma has_sep_contains t : has_sep t = contains_sep t.
  Proof. reflexivity. Qed.

  (* record_fixpoint for the concrete columns = C04 at field level *)
  Theorem columns_record_fixpoint k t w t' :
    cs_build sem k t = Some w -> cs_invalid sem k w = false ->
    cs_str sem k w = Some t' -> has_sep t' = false -> columns_hazard k w = false ->
    cs_build sem k t' = Some w.
  Proof.
    cbn [cs_build cs_invalid cs_str columns_sem]. unfold cx_build, cx_invalid, cx_str, columns_hazard, cref_ok, cref_strict.
    destruct (resolve tbl k) as [r|]; [|discriminate].
    intros Hb Hi Hs Hsep Hhz.
    destruct (cls_build Or r t) as [v|e] eqn:Eb; [|discriminate]. injection Hb as ->.
    destruct (col_str r w) as [ts|e] eqn:Es; [|discriminate]. injection Hs as ->.
    rewrite has_sep_contains in Hsep.
    assert (Hval : field_outcome Or r t = Valid w).
    { apply field_outcome_valid_intro; [exact Eb|exact Hi|]. unfold cls_text_has_sep. now rewrite Es. }
    apply orb_false_iff in Hhz as [Hok Hse]. apply negb_false_iff in Hok.
    apply andb_true_iff in Hok as [_ Hok].
    assert (Hfix : fix_at Or r w).
    { destruct (e_custom (r_self r) && class_strict_ok r) eqn:Est.
      - apply andb_true_iff in Est as [_ Est]. now apply (field_fixpoint_strict Or HO r t w).
      - cbn [negb andb] in Hse. now apply (field_fixpoint Or HO r t w). }
    destruct Hfix as (t2 & Hs2 & _ & Hv2 & _). rewrite Es in Hs2. injection Hs2 as <-.
    apply field_outcome_valid_inv in Hv2 as (Hb2 & _ & _). now rewrite Hb2.
  Qed.
End Laws.

(* ---------- the layouts as schemes ---------- *)
Lemma scheme_of_layout_names l : s_names (scheme_of_layout l) = map fst (l_cols l).
Proof. unfold s_names, scheme_of_layout. cbn [s_cols]. rewrite map_map. reflexivity. Qed.

Lemma scheme_of_layout_class l n c :
  s_class (scheme_of_layout l) n = Some (CTyped c) -> In (n, c) (l_cols l).
Proof.
  unfold s_class, scheme_of_layout. cbn [s_cols]. intros H. apply assoc_in_gen in H.
  apply in_map_iff in H as ([n' c'] & E & Hin). cbn [fst snd] in E. now injection E as <- <-.
Qed.

(* names a column line can carry, decided *)
Definition sep_free_b (t : str) : bool := negb (contains_sep t).
Definition carriable_b (names : list str) : bool :=
  match names with
  | [] => false
  | n0 :: _ => negb (startswith n0 [HASH]) && forallb sep_free_b names
  end.

Lemma carriable_b_sound names : carriable_b names = true -> carriable names.
Proof.
  unfold carriable_b, carriable. destruct names as [|n0 names]; [discriminate|].
  intros H. apply andb_true_iff in H as [H1 H2]. split; [discriminate|]. split.
  - apply Forall_forall. intros x Hx. rewrite forallb_forall in H2. specialize (H2 x Hx).
    unfold sep_free_b in H2. apply negb_true_iff in H2. now apply has_sep_false_iff.
  - cbn [hd]. now apply negb_true_iff.
Qed.

Definition layout_carriable_b (l : layout) : bool := carriable_b (map fst (l_cols l)).

(* ---------- the round trip for layouts of covered classes (tables abstract) ---------- *)
Section Builtin.
  Variable tbl : list class_info.
  Variable layouts : list layout.
  (* what the sweeps establish for every layout of the list *)
  Hypothesis layouts_covered : forall l, In l layouts ->
    NoDup (map fst (l_cols l)) /\ forallb (col_class_ok tbl) (l_cols l) = true.
  Hypothesis layouts_carriable : forallb layout_carriable_b layouts = true.

  Variable Or : oracles.
  Hypothesis HO : oracle_laws Or.
  Notation sem := (columns_sem tbl Or).
  Variable registry : list (scheme (cls cref)).
  Context {K : Type}.
  Variable key_of : sorder -> list str -> rec (payload cref pyval) -> res K.
  Variable key_lt : K -> K -> bool.

  Lemma layout_scheme_premises l :
    In l layouts ->
    s_truthy (scheme_of_layout l) = true /\ carriable (s_names (scheme_of_layout l)) /\
    NoDup (s_names (scheme_of_layout l)) /\
    forallb (col_class_ok tbl) (l_cols l) = true.
  Proof.
    intros Hin. destruct (layouts_covered l Hin) as [ND Hcols].
    pose proof (proj1 (forallb_forall _ _) layouts_carriable l Hin) as Hc.
    apply carriable_b_sound in Hc. rewrite scheme_of_layout_names.
    split; [|split; [exact Hc|split; [exact ND|exact Hcols]]].
    unfold s_truthy, scheme_of_layout. cbn [s_cols]. destruct Hc as (Hne & _ & _).
    clear - Hne. destruct (l_cols l) as [|c cs]; [elim Hne; reflexivity|reflexivity].
  Qed.

  (* C04's side condition on the values of a record: a one-element list whose
     element renders as the empty text may only sit in a column whose class is
     strict (i.e. not in a SequenceOfNullableYesOrNo column: SOMATIC, PHENO) *)
  Definition no_single_null (r : mrec cref pyval) : Prop :=
    Forall (fun np => match snd np with
                      | PTyped c v => cref_strict tbl c = true \/ single_empty v = false
                      | PPlain _ => True
                      end) (cells_of_rec (mcols r)).

  (* the record was parsed from a line under the layout without validation error *)
  Definition parsed_under (s : scheme (cls cref)) (r : mrec cref pyval) : Prop :=
    exists line ln m lg lg', from_line sem line None (Some s) ln (Some m) lg = (lg', Ok r) /\ merrs r = [].

  Lemma parsed_typed (l : layout) (r : mrec cref pyval) :
    In l layouts -> parsed_under (scheme_of_layout l) r -> no_single_null r ->
    typed_by sem (columns_hazard tbl) (scheme_of_layout l) r.
  Proof.
    intros Hin (line & ln & m & lg & lg' & Hp & He) Hns.
    destruct (layout_scheme_premises l Hin) as (Ht & _ & ND & Hcols).
    pose proof (parsed_built sem (scheme_of_layout l) line ln m lg lg' r Ht ND Hp He) as Hb.
    apply built_typed_by; [exact Hb|].
    unfold no_single_null in Hns. revert Hb Hns. generalize (cells_of_rec (mcols r)) as cells.
    clear - Hcols. intros cells Hb Hns. induction Hb as [|[n p] cells Hx _ IH]; [constructor|].
    inversion Hns as [|? ? Hh Hns']; subst. constructor; [|apply IH; exact Hns'].
    cbn [fst snd] in *. destruct p as [t|c v]; [exact I|].
    unfold built_cell in Hx. destruct (s_class (scheme_of_layout l) n) as [[|c0]|] eqn:Ec; try contradiction.
    destruct Hx as [-> _]. apply scheme_of_layout_class in Ec.
    pose proof (proj1 (forallb_forall _ _) Hcols _ Ec) as Hok. unfold col_class_ok in Hok. cbn [snd] in Hok.
    unfold columns_hazard, cref_ok. rewrite Hok. cbn [negb orb].
    destruct Hh as [Hs|Hs]; rewrite Hs; [reflexivity|apply andb_false_r].
  Qed.

  Theorem round_trip_covered_layouts (l : layout) hl m0 lg0 l0 (h : header) m
          (rs : list (mrec cref pyval)) (translate : bool) :
    In l layouts ->
    let s := scheme_of_layout l in
    header_from_lines registry hl m0 lg0 = (l0, Ok h) -> Forall no_crlf hl ->
    h_scheme registry (hrecs h) = Ok (Some s) ->
    Forall (parsed_under s) rs -> Forall no_single_null rs ->
    let w1 := write_file sem registry h (Some m) rs in
    wr_clean w1 = true ->
    in_declared_order key_of key_lt (hrecs h)
      (map (fun v => reread_view sem s (mcols v)) (accepted_records w1)) ->
    let rt := round_trip_of sem registry key_of key_lt h (Some m) rs translate in
    exists rd w2,
      run_init (rt_read rt) = Ok rd /\ run_end (rt_read rt) = EndStop /\
      hrecs (rd_header rd) = hrecs h /\ rd_scheme rd = Some s /\
      Forall2 (fun r' r => cells_of_rec (mcols r') = cells_of_rec (mcols r) /\ merrs r' = [])
              (run_recs (rt_read rt)) rs /\
      Forall2 (fun r' v => map (@slot_view cref pyval) (rlist (mcols r')) = map (@slot_view cref pyval) (rlist (mcols v)) /\
                           record_text sem r' = record_text sem v)
              (run_recs (rt_read rt)) (accepted_records w1) /\
      rt_second rt = Some w2 /\ wr_clean w2 = true /\ wr_text w2 = wr_text w1.
  Proof.
    intros Hin s Hh Hhl Hsch Hparsed Hns w1 Hclean Hord rt.
    destruct (layout_scheme_premises l Hin) as (Ht & Hcar & ND & _).
    assert (Hty : Forall (typed_by sem (columns_hazard tbl) s) rs).
    { clear - Hin Hparsed Hns layouts_covered layouts_carriable.
      induction Hparsed as [|r rs Hp _ IH]; [constructor|].
      inversion Hns as [|? ? Hn1 Hn2]; subst. constructor; [apply parsed_typed; assumption|apply IH; exact Hn2]. }
    exact (round_trip_layout sem registry key_of key_lt (columns_isinst_plain tbl Or)
             (columns_hazard tbl) (columns_record_fixpoint tbl Or HO)
             hl m0 lg0 l0 h s m rs translate Hh Hhl Hsch Ht Hcar ND Hty Hclean Hord).
  Qed.
End Builtin.

(* ---------- instantiation: the regenerated tables ---------- *)
(* finite sweep over the 14 layouts built from the regenerated definitions *)
Lemma all_layouts_carriable : forallb layout_carriable_b layouts_ok = true.
Proof. vm_compute. reflexivity. Qed.

Definition round_trip_builtin_layouts (Or : oracles) (HO : oracle_laws Or) :=
  round_trip_covered_layouts class_table layouts_ok layout_hyps all_layouts_carriable Or HO.
