(* ShapeFacts2.v - every pinned position of every documented layout carries a
   class (resolved by C3 over the regenerated class table) that fits its
   documented domain, for ALL domain kinds; and the pinned vocabularies are
   contained in the regenerated enum table.

   Discipline (see MaskFacts.v): the class table, the built layouts and the
   pinned layouts are Section variables; the concrete regenerated tables enter
   only through boolean sweeps proved by vm_compute at the end. *)
From Coq Require Import String Ascii.
From MafVerif Require Import lib.Base lib.Str lib.PyInt gen.GenClasses gen.GenEnums gen.GenSchemas
     model.Classes model.Columns model.Layouts spec.SpecLayouts
     proofs.LayoutFacts proofs.ColumnFacts proofs.ShapeFacts proofs.ColumnFacts2.
Open Scope string_scope.

Section Abstract.
  Variable tbl : list class_info.
  Variable ls : list layout.
  Variable sls : list (string * string * list (string * descr)).

  (* position-wise: the class at a position fits the pinned descriptor *)
  Definition col_fits_g (c : str * cref) (d : descr) : bool :=
    match resolve tbl (snd c) with
    | Some r => fits d (r_self r) (r_elem r)
    | None => false
    end.
  Definition fits_match_in_g (sl : string * string * list (string * descr)) : bool :=
    let '(ver, annot, cols) := sl in
    match find_layout ls annot with
    | Some l => forallb2 col_fits_g (l_cols l) (map snd cols)
    | None => false
    end.

  Hypothesis Hnames : forallb (names_match_in ls) sls = true.
  Hypothesis Hfits : forallb fits_match_in_g sls = true.

  Lemma col_fits_sound c d :
    col_fits_g c d = true -> exists r, resolve tbl (snd c) = Some r /\ fits d (r_self r) (r_elem r) = true.
  Proof. unfold col_fits_g. destruct (resolve tbl (snd c)) as [r|]; [eauto|discriminate]. Qed.

  Theorem field_domain_all_g (Or : oracles) ver annot cols i name d :
    oracle_clean Or ->
    In (ver, annot, cols) sls -> nth_error cols i = Some (name, d) ->
    exists l cname cls r,
      find_layout ls annot = Some l /\ nth_error (l_cols l) i = Some (cname, cls) /\
      cname = s2l name /\ resolve tbl cls = Some r /\ fits d (r_self r) (r_elem r) = true /\
      forall t, contains_sep t = false ->
        (forall v, zone2 Or d t = ZAccept v -> field_outcome Or r t = Valid v) /\
        (zone2 Or d t = ZReject -> field_outcome Or r t = Invalid).
  Proof.
    intros HO Hin Hnth.
    destruct (names_match_sound ls ver annot cols (proj1 (forallb_forall _ _) Hnames _ Hin))
      as (l & Hl & _ & Hnm).
    pose proof (proj1 (forallb_forall _ _) Hfits _ Hin) as Hm.
    unfold fits_match_in_g in Hm. rewrite Hl in Hm.
    assert (Hd : nth_error (map snd cols) i = Some d) by (rewrite nth_error_map, Hnth; reflexivity).
    assert (Hn2 : nth_error (map (fun c => s2l (fst c)) cols) i = Some (s2l name))
      by (rewrite nth_error_map, Hnth; reflexivity).
    rewrite <- Hnm, nth_error_map in Hn2.
    destruct (nth_error (l_cols l) i) as [[cname cls]|] eqn:Hc; [|discriminate].
    simpl in Hn2. injection Hn2 as Hcn.
    pose proof (forallb2_nth _ _ _ _ _ _ Hm Hc Hd) as Hok.
    apply col_fits_sound in Hok as (r & Hr & Hf). simpl in Hr.
    exists l, cname, cls, r. repeat split; auto.
    - intros v Hz. rewrite field_outcome_fo2.
      exact (proj1 (class_meets_descr_all Or d _ _ t HO Hf H) v Hz).
    - intros Hz. rewrite field_outcome_fo2.
      exact (proj2 (class_meets_descr_all Or d _ _ t HO Hf H) Hz).
  Qed.

  (* how many pinned positions carry a fitting class: (fitting, all) *)
  Definition count_fits_in (acc : nat * nat) (sl : string * string * list (string * descr)) : nat * nat :=
    let '(ver, annot, cols) := sl in
    match find_layout ls annot with
    | Some l =>
        fold_left (fun a cd => (if col_fits_g (fst cd) (snd cd) then S (fst a) else fst a, S (snd a)))
                  (List.combine (l_cols l) (map snd cols)) acc
    | None => (fst acc, (snd acc + length cols)%nat)
    end.
  Definition covered_positions_g : nat * nat := fold_left count_fits_in sls (O, O).
End Abstract.

(* ---------- pinned vocabularies are contained in the regenerated enum table ---------- *)
Definition member_eqb (a b : string * string) : bool := String.eqb (fst a) (fst b) && String.eqb (snd a) (snd b).
Lemma member_eqb_eq a b : member_eqb a b = true -> a = b.
Proof.
  destruct a, b. unfold member_eqb. simpl. intros H. apply andb_true_iff in H as [H1 H2].
  apply String.eqb_eq in H1, H2. now subst.
Qed.

(* a is a subsequence of b: same (name, value) pairs in the same order; b may
   have additional members anywhere *)
Fixpoint subseq_eqb (a b : list (string * string)) {struct b} : bool :=
  match a, b with
  | [], _ => true
  | _ :: _, [] => false
  | x :: a', y :: b' => if member_eqb x y then subseq_eqb a' b' else subseq_eqb a b'
  end.

Inductive Subseq {X} : list X -> list X -> Prop :=
| Subseq_nil b : Subseq [] b
| Subseq_take x a b : Subseq a b -> Subseq (x :: a) (x :: b)
| Subseq_skip y a b : Subseq a b -> Subseq a (y :: b).

Lemma subseq_eqb_sound a b : subseq_eqb a b = true -> Subseq a b.
Proof.
  revert a; induction b as [|y b IH]; intros [|x a] H; simpl in H; try discriminate; try (now constructor).
  destruct (member_eqb x y) eqn:E.
  - apply member_eqb_eq in E. subst. constructor. auto.
  - constructor. auto.
Qed.

Lemma Subseq_in {X} (a b : list X) x : Subseq a b -> In x a -> In x b.
Proof. induction 1; simpl; intros Hin; [destruct Hin| destruct Hin; auto | auto]. Qed.

(* member values pairwise distinct as texts (what @unique promises), names too *)
Fixpoint uniq_by (f : string * string -> str) (ms : list (string * string)) : bool :=
  match ms with
  | [] => true
  | m :: r => forallb (fun m' => negb (str_eqb (f m') (f m))) r && uniq_by f r
  end.

Lemma find_index_first (p : string * string -> bool) ms : forall k i m,
  nth_error ms i = Some m -> p m = true ->
  (forall j m', (j < i)%nat -> nth_error ms j = Some m' -> p m' = false) ->
  find_index p ms k = Some (k + i)%nat.
Proof.
  induction ms as [|h ms IH]; intros k i m Hn Hp Hbefore; [destruct i; discriminate|].
  destruct i as [|i]; simpl in *.
  - injection Hn as ->. rewrite Hp. f_equal. lia.
  - rewrite (Hbefore 0%nat h) by (auto; lia).
    rewrite (IH (S k) i m Hn Hp).
    + f_equal. lia.
    + intros j m' Hj Hm'. apply (Hbefore (S j) m'); [lia|exact Hm'].
Qed.

Lemma uniq_by_before f ms : forall i m j m',
  uniq_by f ms = true -> nth_error ms i = Some m -> (j < i)%nat -> nth_error ms j = Some m' ->
  str_eqb (f m') (f m) = false.
Proof.
  induction ms as [|h ms IH]; intros i m j m' Hu Hi Hj Hm'; [destruct i; discriminate|].
  simpl in Hu. apply andb_true_iff in Hu as [Hh Hu].
  destruct i as [|i]; [lia|]. simpl in Hi.
  destruct j as [|j]; simpl in Hm'.
  - injection Hm' as <-. rewrite forallb_forall in Hh. apply nth_error_In in Hi.
    specialize (Hh _ Hi). apply negb_true_iff in Hh.
    apply str_eqb_neq. apply str_eqb_neq in Hh. congruence.
  - apply (IH i m j m'); auto. lia.
Qed.

(* with distinct values, the text of a member's value denotes that member *)
Lemma lookup_ms_value e ms i m :
  uniq_by (fun x => s2l (snd x)) ms = true -> nth_error ms i = Some m ->
  lookup_ms e ms (s2l (snd m)) = Ok (VEnum e i).
Proof.
  intros Hu Hn. unfold lookup_ms.
  rewrite (find_index_first (fun x => str_eqb (s2l (snd x)) (s2l (snd m))) ms 0 i m Hn).
  - reflexivity.
  - apply str_eqb_refl.
  - intros j m' Hj Hm'. exact (uniq_by_before _ ms i m j m' Hu Hn Hj Hm').
Qed.

(* a member's name is always accepted (it denotes the member with that value, if any, else that name) *)
Lemma lookup_ms_name e ms i m :
  nth_error ms i = Some m -> exists j, lookup_ms e ms (s2l (fst m)) = Ok (VEnum e j).
Proof.
  intros Hn. unfold lookup_ms.
  destruct (find_index (fun x => str_eqb (s2l (snd x)) (s2l (fst m))) ms 0) as [j|]; [eauto|].
  destruct (find_index (fun x => str_eqb (s2l (fst x)) (s2l (fst m))) ms 0) as [j|] eqn:F; [eauto|].
  exfalso. clear -Hn F. revert i F Hn. generalize 0%nat as k.
  induction ms as [|h ms IH]; intros k i F Hn; [destruct i; discriminate|].
  simpl in F. destruct i as [|i]; simpl in Hn.
  - injection Hn as ->. rewrite str_eqb_refl in F. discriminate.
  - destruct (str_eqb (s2l (fst h)) (s2l (fst m))); [discriminate|]. eauto.
Qed.

Section Vocab.
  Variable senums : list (string * list (string * string)).

  Definition enum_contained (se : string * list (string * string)) : bool :=
    subseq_eqb (snd se) (enum_members (fst se)).
  (* the regenerated enum class is declared @unique and its values / names are distinct *)
  Definition enum_unique (se : string * list (string * string)) : bool :=
    match find (fun x => String.eqb (fst (fst x)) (fst se)) enum_table with
    | Some (_, u, _) => u
    | None => false
    end
    && uniq_by (fun x => s2l (snd x)) (enum_members (fst se))
    && uniq_by (fun x => s2l (fst x)) (enum_members (fst se)).

  Hypothesis Hcont : forallb enum_contained senums = true.
  Hypothesis Huniq : forallb enum_unique senums = true.

  Theorem vocab_contained_g e ms :
    In (e, ms) senums -> Subseq ms (enum_members e).
  Proof.
    intros Hin. apply subseq_eqb_sound.
    exact (proj1 (forallb_forall _ _) Hcont _ Hin).
  Qed.

  (* every documented term is a member of the regenerated class, its value text
     denotes exactly that member, and its name is accepted too *)
  Theorem documented_term_accepted_g e ms name value :
    In (e, ms) senums -> In (name, value) ms ->
    exists i, nth_error (enum_members e) i = Some (name, value) /\
              zone_enum_lookup e (s2l value) = ZAccept (VEnum e i) /\
              exists j, zone_enum_lookup e (s2l name) = ZAccept (VEnum e j).
  Proof.
    intros Hin Hm.
    pose proof (Subseq_in _ _ _ (vocab_contained_g e ms Hin) Hm) as Hmem.
    apply In_nth_error in Hmem as [i Hi]. exists i. split; [exact Hi|].
    pose proof (proj1 (forallb_forall _ _) Huniq _ Hin) as Hu. unfold enum_unique in Hu. cbn [fst] in Hu.
    apply andb_true_iff in Hu as [Hu _]. apply andb_true_iff in Hu as [_ Hu].
    unfold zone_enum_lookup. rewrite !enum_lookup_ms.
    pose proof (lookup_ms_value e _ i (name, value) Hu Hi) as Hv. cbn [snd] in Hv. rewrite Hv.
    split; [reflexivity|].
    destruct (lookup_ms_name e _ i (name, value) Hi) as [j Hj]. cbn [fst] in Hj. rewrite Hj. eauto.
  Qed.
End Vocab.

(* ---------- the concrete sweeps over the regenerated tables ---------- *)
Lemma all_fits : forallb (fits_match_in_g class_table layouts_ok) spec_layouts = true.
Proof. vm_compute. reflexivity. Qed.

Lemma spec_enums_contained : forallb enum_contained spec_enums = true.
Proof. vm_compute. reflexivity. Qed.

Lemma spec_enums_unique : forallb enum_unique spec_enums = true.
Proof. vm_compute. reflexivity. Qed.

(* every enum class of the regenerated table (documented or not) is @unique with
   distinct values and names and has TAB/CR/LF-free values *)
Lemma enum_table_wellformed :
  forallb (fun x => let '(e, u, ms) := x in
                    u && uniq_by (fun m => s2l (snd m)) ms && uniq_by (fun m => s2l (fst m)) ms
                    && forallb (fun m => negb (contains_sep (s2l (snd m)))) ms) enum_table = true.
Proof. vm_compute. reflexivity. Qed.

Definition covered_positions_all : nat * nat := covered_positions_g class_table layouts_ok spec_layouts.
