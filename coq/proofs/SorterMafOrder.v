(* SorterMafOrder.v - the order hypothesis of the C07 theorems (`swo K lt`)
   holds for the MAF sort keys: it is property C08 (proofs/SortOrderFacts.v,
   another cluster), restated in the shape lib/SorterLib.v uses.  Kept out of
   props/C07.v so that C07's check does not depend on the C08 files. *)
From MafVerif Require Import lib.Base lib.SorterLib proofs.SortOrderFacts.

Lemma maf_key_order_swo : swo _ key_ltb.
Proof.
  split; [exact key_ltb_irrefl |]. split; [exact key_ltb_trans |].
  intros a b c H1 H2. exact (key_ltb_false_trans c b a H2 H1).
Qed.
Print Assumptions maf_key_order_swo.
