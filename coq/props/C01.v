(* C01 - Validation accepts exactly the lines that conform to the scheme.
   Property theorems only; proofs in proofs/LayoutFacts.v, proofs/ColumnFacts.v. *)
From Coq Require Import String.
From MafVerif Require Import lib.Base lib.Str model.Classes model.Columns model.Layouts spec.SpecLayouts proofs.LayoutFacts.
Open Scope string_scope.

(* Every documented (pinned) layout is what the regenerated scheme definitions
   build: same version, same column names in the same order.  (Bound: the 14
   pinned layouts; the check is a finite sweep lifted with forallb_forall.) *)
Theorem C01_layout_names_as_documented :
  forall ver annot cols, In (ver, annot, cols) spec_layouts ->
    exists l, find_layout layouts_ok annot = Some l /\ l_version l = ver /\
              map fst (l_cols l) = map (fun c => s2l (fst c)) cols.
Proof. exact layout_names_as_documented. Qed.
Print Assumptions C01_layout_names_as_documented.

From MafVerif Require Import lib.PyInt gen.GenClasses proofs.ColumnFacts proofs.ShapeFacts.

(* For every pinned layout, every column position whose documented domain is
   one of the proved kinds (text, nullable text, integer with optional lower
   bound and optional null, Entrez id, DNA, nullable DNA, transcript strand and
   must-be-null over any of these), and EVERY field text without TAB/CR/LF:
   the class the regenerated definitions put there (resolved by C3 over the
   regenerated class table) accepts the text with exactly the denoted value
   when it lies in the documented domain, and rejects it when it lies outside.
   Unbounded in the text; finite only in the set of layouts (14, pinned).
   The remaining kinds (float, UUID, enumerations, lists, text-or-integer,
   Canonical, Boolean) are covered by the correspondence and the oracle only:
   this is C01_field_domain_partial. *)
Theorem C01_field_domain_partial :
  forall (Or : oracles) ver annot cols i name d e,
    In (ver, annot, cols) spec_layouts -> nth_error cols i = Some (name, d) -> shape d = Some e ->
    exists l cname cls r,
      find_layout layouts_ok annot = Some l /\ nth_error (l_cols l) i = Some (cname, cls) /\
      cname = s2l name /\ resolve class_table cls = Some r /\
      forall t, contains_sep t = false ->
        (forall v, zone d t = ZAccept v -> field_outcome Or r t = Valid v) /\
        (zone d t = ZReject -> field_outcome Or r t = Invalid).
Proof. exact field_domain_as_documented. Qed.
Print Assumptions C01_field_domain_partial.

(* the same statement for any class of the proved shapes, whatever layout it sits in *)
Theorem C01_class_meets_domain :
  forall (Or : oracles) d ec t, shape d = Some ec -> contains_sep t = false ->
    (forall v, zone d t = ZAccept v -> fo Or ec t = Valid v) /\
    (zone d t = ZReject -> fo Or ec t = Invalid).
Proof. exact class_meets_descr. Qed.
Print Assumptions C01_class_meets_domain.

(* non-vacuity: how many of the pinned positions the proved kinds cover, and
   concrete zones on boundary texts *)
Example covered : covered_positions = (803%nat, 1731%nat).
Proof. vm_compute. reflexivity. Qed.
Example zones_boundary :
  map (zone (DInt (Some 1%Z) false)) [s2l "1"; s2l "0"; s2l "+7"; s2l "x"; s2l ""]
  = [ZAccept (VInt 1); ZReject; ZDontCare; ZReject; ZReject]
  /\ map (zone (DMustNull (DDna true))) [s2l ""; s2l "A"; s2l "-"; s2l "q"]
  = [ZAccept VNone; ZReject; ZReject; ZReject]
  /\ zone DEntrez (s2l "0") = ZAccept VNone.
Proof. vm_compute. repeat split; reflexivity. Qed.
