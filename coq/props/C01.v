(* C01 - Validation accepts exactly the lines that conform to the scheme.
   Property theorems only; proofs in proofs/LayoutFacts.v, proofs/ColumnFacts.v. *)
From Coq Require Import String.
From MafVerif Require Import lib.Base lib.Str model.Classes model.Columns model.Layouts spec.SpecLayouts proofs.LayoutFacts.
Open Scope string_scope.

(* Every documented (pinned) layout is what the regenerated scheme definitions
   build: same version, same column names in the same order.  (Bound: the 14
   pinned layouts; the check is a finite sweep lifted with forallb_forall.) *)
Theorem C01_layout_names_as_documented :
  forall ver annot cols, In (ver, annot, cols) spec_layouts ->
    exists l, find_layout layouts_ok annot = Some l /\ l_version l = ver /\
              map fst (l_cols l) = map (fun c => s2l (fst c)) cols.
Proof. exact layout_names_as_documented. Qed.
Print Assumptions C01_layout_names_as_documented.

From MafVerif Require Import lib.PyInt gen.GenClasses proofs.ColumnFacts proofs.ShapeFacts.

(* The field-level theorem over every pinned position is C01_field_domain_all below. *)

(* per-class statement for the first family of domain kinds (text, integer, Entrez, DNA,
   strand, must-be-null over these); the remaining kinds are in C01_class_meets_domain_all *)
Theorem C01_class_meets_domain :
  forall (Or : oracles) d ec t, shape d = Some ec -> contains_sep t = false ->
    (forall v, zone d t = ZAccept v -> fo Or ec t = Valid v) /\
    (zone d t = ZReject -> fo Or ec t = Invalid).
Proof. exact class_meets_descr. Qed.
Print Assumptions C01_class_meets_domain.

(* non-vacuity: how many of the pinned positions the proved kinds cover, and
   concrete zones on boundary texts *)
Example covered : covered_positions = (803%nat, 1731%nat).
Proof. vm_compute. reflexivity. Qed.
Example zones_boundary :
  map (zone (DInt (Some 1%Z) false)) [s2l "1"; s2l "0"; s2l "+7"; s2l "x"; s2l ""]
  = [ZAccept (VInt 1); ZReject; ZDontCare; ZReject; ZReject]
  /\ map (zone (DMustNull (DDna true))) [s2l ""; s2l "A"; s2l "-"; s2l "q"]
  = [ZAccept VNone; ZReject; ZReject; ZReject]
  /\ zone DEntrez (s2l "0") = ZAccept VNone.
Proof. vm_compute. repeat split; reflexivity. Qed.

(* ---------- all documented domain kinds (proofs/ColumnFacts2.v, ShapeFacts2.v, DomainAll.v) ---------- *)
From MafVerif Require Import proofs.ColumnFacts2 proofs.ShapeFacts2 proofs.DomainAll.

(* C01_field_domain_partial without the restriction to the proved kinds: for
   every pinned layout, EVERY column position (1731 of 1731) and every field
   text without TAB/CR/LF, the class the regenerated definitions put there
   (C3 over the regenerated class table) fits the documented domain
   (`fits`), accepts the text with exactly the denoted value when it lies in
   the documented domain (`zone2`: float, UUID, the 16 enumerations incl. the
   capitalising ones and their null keys, ';'-lists, text-or-integer,
   Canonical, Boolean, and the kinds of `zone`), and rejects it - never exposes
   a value - when it lies outside.  float()/uuid.UUID() are the host oracle
   `Or`; its law "reprs contain no TAB/CR/LF" is the hypothesis oracle_clean.
   Unbounded in the text; finite only in the set of layouts (14, pinned). *)
Theorem C01_field_domain_all :
  forall (Or : oracles) ver annot cols i name d,
    oracle_clean Or ->
    In (ver, annot, cols) spec_layouts -> nth_error cols i = Some (name, d) ->
    exists l cname cls r,
      find_layout layouts_ok annot = Some l /\ nth_error (l_cols l) i = Some (cname, cls) /\
      cname = s2l name /\ resolve class_table cls = Some r /\ fits d (r_self r) (r_elem r) = true /\
      forall t, contains_sep t = false ->
        (forall v, zone2 Or d t = ZAccept v -> field_outcome Or r t = Valid v) /\
        (zone2 Or d t = ZReject -> field_outcome Or r t = Invalid).
Proof. exact field_domain_as_documented_all. Qed.
Print Assumptions C01_field_domain_all.

(* the same for any resolved class (self, element class) fitting a descriptor *)
Theorem C01_class_meets_domain_all :
  forall (Or : oracles) d e el t,
    oracle_clean Or -> fits d e el = true -> contains_sep t = false ->
    (forall v, zone2 Or d t = ZAccept v -> fo2 Or e el t = Valid v) /\
    (zone2 Or d t = ZReject -> fo2 Or e el t = Invalid).
Proof. exact class_meets_domain_all. Qed.
Print Assumptions C01_class_meets_domain_all.

(* the pinned vocabularies are contained in the regenerated enum table (same
   member name and value, same order): removing or renaming a documented term
   breaks this obligation, adding one does not *)
Theorem C01_vocabularies_contained :
  forall e ms, In (e, ms) spec_enums -> Subseq ms (enum_members e).
Proof. exact vocabularies_contained. Qed.
Print Assumptions C01_vocabularies_contained.

(* every documented term is a member of the regenerated class, its value text
   denotes exactly that member, and its member name is accepted as well *)
Theorem C01_documented_term_accepted :
  forall e ms name value, In (e, ms) spec_enums -> In (name, value) ms ->
    exists i, nth_error (enum_members e) i = Some (name, value) /\
              zone_enum_lookup e (s2l value) = ZAccept (VEnum e i) /\
              exists j, zone_enum_lookup e (s2l name) = ZAccept (VEnum e j).
Proof. exact documented_term_accepted. Qed.
Print Assumptions C01_documented_term_accepted.

(* non-vacuity: all pinned positions are covered; zones of the new kinds on boundary texts *)
Example covered_by_all_kinds : covered_positions_all = (1731%nat, 1731%nat).
Proof. exact covered_all. Qed.
Example zones_all_kinds :
  zone2 ex_oracle DCanonical (s2l "yEs") = ZAccept (VBool true)
  /\ zone2 ex_oracle NYN (s2l "nULL") = ZAccept (VEnum "NullableYesOrNoEnum" 0)
  /\ map (zone2 ex_oracle (DSeq (DText true false))) [s2l "a;;b"; s2l ";"; s2l ""] = [ZReject; ZReject; ZAccept (VList [])]
  /\ zone2 ex_oracle DTextOrInt (s2l "+7") = ZDontCare
  /\ zone2 ex_oracle (DFloat true) (s2l "1e3") = ZAccept (VFloat (s2l "1000.0")).
Proof. vm_compute. repeat split; reflexivity. Qed.
