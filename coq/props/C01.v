(* C01 - Validation accepts exactly the lines that conform to the scheme.
   Property theorems only; proofs in proofs/LayoutFacts.v, proofs/ColumnFacts.v. *)
From Coq Require Import String.
From MafVerif Require Import lib.Base lib.Str model.Classes model.Columns model.Layouts spec.SpecLayouts proofs.LayoutFacts.
Open Scope string_scope.

(* Every documented (pinned) layout is what the regenerated scheme definitions
   build: same version, same column names in the same order.  (Bound: the 14
   pinned layouts; the check is a finite sweep lifted with forallb_forall.) *)
Theorem C01_layout_names_as_documented :
  forall ver annot cols, In (ver, annot, cols) spec_layouts ->
    exists l, find_layout layouts_ok annot = Some l /\ l_version l = ver /\
              map fst (l_cols l) = map (fun c => s2l (fst c)) cols.
Proof. exact layout_names_as_documented. Qed.
Print Assumptions C01_layout_names_as_documented.
