(* C01 - Validation accepts exactly the lines that conform to the scheme.
   Property theorems only; proofs in proofs/LayoutFacts.v, proofs/ColumnFacts.v. *)
From Coq Require Import String.
From MafVerif Require Import lib.Base lib.Str model.Classes model.Columns model.Layouts spec.SpecLayouts proofs.LayoutFacts.
Open Scope string_scope.

(* Every documented (pinned) layout is what the regenerated scheme definitions
   build: same version, same column names in the same order.  (Bound: the 14
   pinned layouts; the check is a finite sweep lifted with forallb_forall.) *)
Theorem C01_layout_names_as_documented :
  forall ver annot cols, In (ver, annot, cols) spec_layouts ->
    exists l, find_layout layouts_ok annot = Some l /\ l_version l = ver /\
              map fst (l_cols l) = map (fun c => s2l (fst c)) cols.
Proof. exact layout_names_as_documented. Qed.
Print Assumptions C01_layout_names_as_documented.

From MafVerif Require Import lib.PyInt gen.GenClasses proofs.ColumnFacts proofs.ShapeFacts.

(* The field-level theorem over every pinned position is C01_field_domain_all below. *)

(* per-class statement for the first family of domain kinds (text, integer, Entrez, DNA,
   strand, must-be-null over these); the remaining kinds are in C01_class_meets_domain_all *)
Theorem C01_class_meets_domain :
  forall (Or : oracles) d ec t, shape d = Some ec -> contains_sep t = false ->
    (forall v, zone d t = ZAccept v -> fo Or ec t = Valid v) /\
    (zone d t = ZReject -> fo Or ec t = Invalid).
Proof. exact class_meets_descr. Qed.
Print Assumptions C01_class_meets_domain.

(* non-vacuity: how many of the pinned positions the proved kinds cover, and
   concrete zones on boundary texts *)
Example covered : covered_positions = (803%nat, 1731%nat).
Proof. vm_compute. reflexivity. Qed.
Example zones_boundary :
  map (zone (DInt (Some 1%Z) false)) [s2l "1"; s2l "0"; s2l "+7"; s2l "x"; s2l ""]
  = [ZAccept (VInt 1); ZReject; ZDontCare; ZReject; ZReject]
  /\ map (zone (DMustNull (DDna true))) [s2l ""; s2l "A"; s2l "-"; s2l "q"]
  = [ZAccept VNone; ZReject; ZReject; ZReject]
  /\ zone DEntrez (s2l "0") = ZAccept VNone.
Proof. vm_compute. repeat split; reflexivity. Qed.

(* ---------- all documented domain kinds (proofs/ColumnFacts2.v, ShapeFacts2.v, DomainAll.v) ---------- *)
From MafVerif Require Import proofs.ColumnFacts2 proofs.ShapeFacts2 proofs.DomainAll.

(* C01_field_domain_partial without the restriction to the proved kinds: for
   every pinned layout, EVERY column position (1731 of 1731) and every field
   text without TAB/CR/LF, the class the regenerated definitions put there
   (C3 over the regenerated class table) fits the documented domain
   (`fits`), accepts the text with exactly the denoted value when it lies in
   the documented domain (`zone2`: float, UUID, the 16 enumerations incl. the
   capitalising ones and their null keys, ';'-lists, text-or-integer,
   Canonical, Boolean, and the kinds of `zone`), and rejects it - never exposes
   a value - when it lies outside.  float()/uuid.UUID() are the host oracle
   `Or`; its law "reprs contain no TAB/CR/LF" is the hypothesis oracle_clean.
   Unbounded in the text; finite only in the set of layouts (14, pinned). *)
Theorem C01_field_domain_all :
  forall (Or : oracles) ver annot cols i name d,
    oracle_clean Or ->
    In (ver, annot, cols) spec_layouts -> nth_error cols i = Some (name, d) ->
    exists l cname cls r,
      find_layout layouts_ok annot = Some l /\ nth_error (l_cols l) i = Some (cname, cls) /\
      cname = s2l name /\ resolve class_table cls = Some r /\ fits d (r_self r) (r_elem r) = true /\
      forall t, contains_sep t = false ->
        (forall v, zone2 Or d t = ZAccept v -> field_outcome Or r t = Valid v) /\
        (zone2 Or d t = ZReject -> field_outcome Or r t = Invalid).
Proof. exact field_domain_as_documented_all. Qed.
Print Assumptions C01_field_domain_all.

(* the same for any resolved class (self, element class) fitting a descriptor *)
Theorem C01_class_meets_domain_all :
  forall (Or : oracles) d e el t,
    oracle_clean Or -> fits d e el = true -> contains_sep t = false ->
    (forall v, zone2 Or d t = ZAccept v -> fo2 Or e el t = Valid v) /\
    (zone2 Or d t = ZReject -> fo2 Or e el t = Invalid).
Proof. exact class_meets_domain_all. Qed.
Print Assumptions C01_class_meets_domain_all.

(* the pinned vocabularies are contained in the regenerated enum table (same
   member name and value, same order): removing or renaming a documented term
   breaks this obligation, adding one does not *)
Theorem C01_vocabularies_contained :
  forall e ms, In (e, ms) spec_enums -> Subseq ms (enum_members e).
Proof. exact vocabularies_contained. Qed.
Print Assumptions C01_vocabularies_contained.

(* every documented term is a member of the regenerated class, its value text
   denotes exactly that member, and its member name is accepted as well *)
Theorem C01_documented_term_accepted :
  forall e ms name value, In (e, ms) spec_enums -> In (name, value) ms ->
    exists i, nth_error (enum_members e) i = Some (name, value) /\
              zone_enum_lookup e (s2l value) = ZAccept (VEnum e i) /\
              exists j, zone_enum_lookup e (s2l name) = ZAccept (VEnum e j).
Proof. exact documented_term_accepted. Qed.
Print Assumptions C01_documented_term_accepted.

(* non-vacuity: all pinned positions are covered; zones of the new kinds on boundary texts *)
Example covered_by_all_kinds : covered_positions_all = (1731%nat, 1731%nat).
Proof. exact covered_all. Qed.
Example zones_all_kinds :
  zone2 ex_oracle DCanonical (s2l "yEs") = ZAccept (VBool true)
  /\ zone2 ex_oracle NYN (s2l "nULL") = ZAccept (VEnum "NullableYesOrNoEnum" 0)
  /\ map (zone2 ex_oracle (DSeq (DText true false))) [s2l "a;;b"; s2l ";"; s2l ""] = [ZReject; ZReject; ZAccept (VList [])]
  /\ zone2 ex_oracle DTextOrInt (s2l "+7") = ZDontCare
  /\ zone2 ex_oracle (DFloat true) (s2l "1e3") = ZAccept (VFloat (s2l "1000.0")).
Proof. vm_compute. repeat split; reflexivity. Qed.

From MafVerif Require Import model.RecordOps model.ColRecord proofs.ParseFacts proofs.LineFacts.

(* ACCEPT, whole lines: under every pinned documented layout, a line with the
   layout's number of tab-separated fields each lying in the documented domain
   of its column (and containing no CR/LF) is accepted in Strict mode without
   any validation error; the record has one slot per column, field i is bound
   to the layout's i-th column name, stores index i, and carries exactly the
   value the text denotes.  For all lines; the 14 layouts are the bound. *)
Theorem C01_line_in_domain_is_accepted :
  forall (Or : oracles), oracle_clean Or ->
  forall ver annot cols ln line,
    In (ver, annot, cols) spec_layouts ->
    let texts := split TAB (rstrip_crlf line) in
    length texts = length cols ->
    (forall i name d t, nth_error cols i = Some (name, d) -> nth_error texts i = Some t ->
        contains_sep t = false /\ exists v, zone2 Or d t = ZAccept v) ->
    exists l rec cs,
      find_layout layouts_ok annot = Some l /\
      from_line class_table Or Strict None (Some (l_cols l)) ln line = Ok (rec, []) /\
      dense rec cs /\ length cs = length cols /\
      forall i name d t, nth_error cols i = Some (name, d) -> nth_error texts i = Some t ->
        exists c v, nth_error cs i = Some c /\ ckey c = s2l name /\ cidx c = Some (Z.of_nat i) /\
                    zone2 Or d t = ZAccept v /\ v_val (cval c) = v.
Proof. intros Or Hc. exact (line_accepted_as_documented Or Hc). Qed.
Print Assumptions C01_line_in_domain_is_accepted.

(* REJECT, whole lines, every validation mode: if some field lies outside the
   documented domain of its column, the line is not returned in Strict mode;
   in the other modes the column is not exposed (record.value(name) is None)
   and, when the field count is right, an error is reported against that
   column with the line number. *)
Theorem C01_field_outside_domain_is_reported_and_hidden :
  forall (Or : oracles), oracle_clean Or ->
  forall ver annot cols m ln line i name d t l rec errs,
    In (ver, annot, cols) spec_layouts -> find_layout layouts_ok annot = Some l ->
    let texts := split TAB (rstrip_crlf line) in
    nth_error cols i = Some (name, d) -> nth_error texts i = Some t ->
    contains_sep t = false -> zone2 Or d t = ZReject ->
    from_line class_table Or m None (Some (l_cols l)) ln line = Ok (rec, errs) ->
    m <> Strict /\ rec_value rec (s2l name) = VNone /\
    (length texts = length cols -> exists e, In e errs /\ ecol e = Some (s2l name) /\ eline e = ln).
Proof. intros Or Hc. exact (field_rejected_as_documented Or Hc). Qed.
Print Assumptions C01_field_outside_domain_is_reported_and_hidden.

(* wrong field count: reported, nothing exposed *)
Theorem C01_wrong_field_count :
  forall (Or : oracles) m (s : scheme) ln line,
    length (split TAB (rstrip_crlf line)) <> length s ->
    match from_line class_table Or m None (Some s) ln line with
    | Ok (rec, errs) => m <> Strict /\ rec = empty_rec /\
                        exists e, In e errs /\ etpe e = "RECORD_MISMATCH_NUMBER_OF_COLUMNS" /\ eline e = ln
    | Raise (MafFormat _ l) => m = Strict /\ l = ln
    | Raise _ => False
    end.
Proof.
  intros Or m s ln line Hne. unfold from_line. rewrite map_length.
  destruct (Nat.eqb_spec (length s) (length (split TAB (rstrip_crlf line)))) as [E|E]; [congruence|].
  cbn [negb]. unfold rec_validate, process_errors. simpl.
  destruct m; simpl; auto; (split; [discriminate|split; [reflexivity|]]); eexists; (split; [left; reflexivity|]); auto.
Qed.
Print Assumptions C01_wrong_field_count.
