(* C10 - A sorting writer's output obeys the order and contigs its own header
   declares.  Property theorems only; proofs are in
   proofs/SortOrderWriterFacts.v.  Model: model/WriterSort.v (MafWriter over an
   abstract sorter), model/OrderCheck.v (reader side).
   The MafSorter is "a sorter": `sorter_contract` is its contract (property C07
   for the order, C04 for the codec): iterating it returns the added records,
   each exactly once up to rendering, sorted by the key function it was built
   with.  The writer builds that key function from the header's sort-order
   name AND the header's contigs (header_kf). *)
From MafVerif Require Import lib.Base lib.Str lib.SortOrderLib model.SortOrder model.OrderCheck
  model.WriterSort model.SortOrderDispatch spec.SpecOrder proofs.SortOrderFacts
  proofs.SortOrderCheckFacts proofs.SortOrderHeaderFacts proofs.SortOrderWriterFacts
  proofs.SortOrderPrintFacts proofs.SorterFacts proofs.SortOrderCompose.
From Coq Require Import Sorted Permutation.

(* sorting on: after close the handle holds the header lines, the column line
   and every record exactly once, sorted by the header's own order and contigs;
   and when the printed header declares what the header object holds, the
   library's reader iterates these records to the end *)
Theorem C10_sorting_writer_obeys_its_header :
  forall (R : Type) (view : R -> locatable) (render : R -> str) (rkeys : R -> list str)
         (validate : R -> res unit) (sorter_iter : keyfn -> list R -> res (list R))
         (h : wheader) (rs : list R),
    sorter_contract R view render sorter_iter -> sortable h ->
    Forall (fun r => validate r = Ok tt) rs ->
    Forall (fun r => good (header_kf h) (view r)) rs ->
    exists w ys,
      writer_session R view render rkeys validate sorter_iter h false rs = (w, Ok tt) /\
      w_closed R w = true /\
      w_out R w = wh_text h ++ col_lines R rkeys h rs ++ map render ys /\
      Permutation (map render ys) (map render rs) /\
      StronglySorted (fun a b => rec_ltb (header_kf h) (view b) (view a) = false) ys /\
      (header_coherent h -> reader_iter (wh_text h) (map view ys) = (map view ys, Ok tt)).
Proof. exact sorting_writer_obeys_its_header. Qed.
Print Assumptions C10_sorting_writer_obeys_its_header.

(* for a header built by MafHeader.from_lines (any lines) the side condition
   holds: what the writer prints reads back as the same order and contigs, so
   the library's reader iterates the produced records to the end *)
Theorem C10_header_from_lines_reads_back :
  forall hl scheme, sortable (wheader_of_lines hl scheme) -> header_coherent (wheader_of_lines hl scheme).
Proof. exact from_lines_header_coherent. Qed.
Print Assumptions C10_header_from_lines_reads_back.

Theorem C10_sorting_writer_output_is_readable :
  forall (R : Type) (view : R -> locatable) (render : R -> str) (rkeys : R -> list str)
         (validate : R -> res unit) (sorter_iter : keyfn -> list R -> res (list R))
         (hl : list str) (scheme : option (list str)) (rs : list R),
    let h := wheader_of_lines hl scheme in
    sorter_contract R view render sorter_iter -> sortable h ->
    Forall (fun r => validate r = Ok tt) rs ->
    Forall (fun r => good (header_kf h) (view r)) rs ->
    exists w ys,
      writer_session R view render rkeys validate sorter_iter h false rs = (w, Ok tt) /\
      w_closed R w = true /\
      w_out R w = wh_text h ++ col_lines R rkeys h rs ++ map render ys /\
      Permutation (map render ys) (map render rs) /\
      StronglySorted (fun a b => rec_ltb (header_kf h) (view b) (view a) = false) ys /\
      reader_iter (wh_text h) (map view ys) = (map view ys, Ok tt).
Proof. exact sorting_writer_from_lines. Qed.
Print Assumptions C10_sorting_writer_output_is_readable.

(* composed with C07 (the sorter's theorem, instantiated as the MafSorter of
   model/Sorter.v with the MAF key order of C08): `sorter_contract` is no
   longer a premise.  What remains is the codec contract (render then from_line
   gives back a record with the same rendering, key and non-emptiness: C04's
   side) and the contract of the host's sorted()/heapq; for every capacity
   >= 1 and either spill policy. *)
Theorem C10_sorting_writer_obeys_its_header_composed :
  forall (R : Type) (view : R -> locatable) (render : R -> str) (dec : str -> res R)
         (pick_min : forall X : Type, (X -> X -> bool) -> list X -> option (X * list X))
         (c : nat) (al : bool),
    (1 <= c)%nat -> pick_contract pick_min -> maf_codec_contract R view render dec ->
    forall (rkeys : R -> list str) (validate : R -> res unit) (h : wheader) (rs : list R),
    sortable h ->
    Forall (fun r => validate r = Ok tt) rs ->
    Forall (fun r => good (header_kf h) (view r)) rs ->
    exists w ys,
      writer_session R view render rkeys validate (maf_sorter_iter R view render dec pick_min c al)
                     h false rs = (w, Ok tt) /\
      w_closed R w = true /\
      w_out R w = wh_text h ++ col_lines R rkeys h rs ++ map render ys /\
      Permutation (map render ys) (map render rs) /\
      StronglySorted (fun a b => rec_ltb (header_kf h) (view b) (view a) = false) ys /\
      (header_coherent h -> reader_iter (wh_text h) (map view ys) = (map view ys, Ok tt)).
Proof. exact sorting_writer_composed. Qed.
Print Assumptions C10_sorting_writer_obeys_its_header_composed.

(* ... and for a header built by MafHeader.from_lines, with no condition on the header left *)
Theorem C10_sorting_writer_output_is_readable_composed :
  forall (R : Type) (view : R -> locatable) (render : R -> str) (dec : str -> res R)
         (pick_min : forall X : Type, (X -> X -> bool) -> list X -> option (X * list X))
         (c : nat) (al : bool),
    (1 <= c)%nat -> pick_contract pick_min -> maf_codec_contract R view render dec ->
    forall (rkeys : R -> list str) (validate : R -> res unit)
           (hl : list str) (scheme : option (list str)) (rs : list R),
    let h := wheader_of_lines hl scheme in
    sortable h ->
    Forall (fun r => validate r = Ok tt) rs ->
    Forall (fun r => good (header_kf h) (view r)) rs ->
    exists w ys,
      writer_session R view render rkeys validate (maf_sorter_iter R view render dec pick_min c al)
                     h false rs = (w, Ok tt) /\
      w_closed R w = true /\
      w_out R w = wh_text h ++ col_lines R rkeys h rs ++ map render ys /\
      Permutation (map render ys) (map render rs) /\
      StronglySorted (fun a b => rec_ltb (header_kf h) (view b) (view a) = false) ys /\
      reader_iter (wh_text h) (map view ys) = (map view ys, Ok tt).
Proof. exact sorting_writer_composed_from_lines. Qed.
Print Assumptions C10_sorting_writer_output_is_readable_composed.

(* sorting off: records appear in exactly the order they were written *)
Theorem C10_unsorted_writer_keeps_write_order :
  forall (R : Type) (view : R -> locatable) (render : R -> str) (rkeys : R -> list str)
         (validate : R -> res unit) (sorter_iter : keyfn -> list R -> res (list R))
         (h : wheader) (rs : list R),
    Forall (fun r => validate r = Ok tt) rs ->
    exists w,
      writer_session R view render rkeys validate sorter_iter h true rs = (w, Ok tt) /\
      w_closed R w = true /\
      w_out R w = wh_text h ++ col_lines R rkeys h rs ++ map render rs.
Proof. exact session_write_order. Qed.
Print Assumptions C10_unsorted_writer_keeps_write_order.

(* the wiring: a sorting writer builds its sorter's key function from the
   header's sort-order class and the header's contigs *)
Theorem C10_sorter_built_from_header_order_and_contigs :
  forall (R : Type) (h : wheader), sortable h ->
    set_checker_and_sorter R h false = Ok (None, Some {| st_key := header_kf h; st_recs := [] |}).
Proof. exact set_sorting. Qed.
Print Assumptions C10_sorter_built_from_header_order_and_contigs.

(* ---------- non-vacuity ---------- *)
(* "#sort.order Coordinate" , "#contigs chr1,chr2,chr10" *)
Definition l_so : str := [35;115;111;114;116;46;111;114;100;101;114;32;67;111;111;114;100;105;110;97;116;101]%N.
Definition l_ct : str := [35;99;111;110;116;105;103;115;32;99;104;114;49;44;99;104;114;50;44;99;104;114;49;48]%N.
Definition chr1 : str := [99;104;114;49]%N.
Definition chr2 : str := [99;104;114;50]%N.
Definition chr10 : str := [99;104;114;49;48]%N.
Definition names3 : list str := [n_Chromosome; n_Start; n_End].
Definition rec_ (c : str) (s : Z) : wrec :=
  (Maf [(n_Chromosome, PStr c); (n_Start, PInt s); (n_End, PInt s)],
   (c ++ [TAB] ++ render_int s ++ [TAB] ++ render_int s, names3)).

(* the header MafHeader.from_lines builds from the two pragma lines *)
Definition demo_header : wheader := wheader_of_lines [l_so; l_ct] None.

Example demo_header_hyps : sortable demo_header /\ header_coherent demo_header /\
  header_kf demo_header = {| kf_bar := false; kf_contigs := [PStr chr1; PStr chr2; PStr chr10] |}.
Proof. repeat split; vm_compute; reflexivity. Qed.

(* the input that broke the pinned tree (sorter built without the contigs):
   chr10, chr2, chr1 are written; the file holds chr1, chr2, chr10 *)
Example demo_session :
  let '(w, fin) := writer_session wrec fst (fun r => fst (snd r)) (fun r => snd (snd r)) (fun _ => Ok tt)
                     stable_sort demo_header false [rec_ chr10 1; rec_ chr2 1; rec_ chr1 5] in
  fin = Ok tt /\ w_closed _ w = true /\
  w_out _ w = [l_so; l_ct; column_line names3] ++ map (fun r => fst (snd r)) [rec_ chr1 5; rec_ chr2 1; rec_ chr10 1] /\
  reader_iter (wh_text demo_header) (map fst [rec_ chr1 5; rec_ chr2 1; rec_ chr10 1])
  = (map fst [rec_ chr1 5; rec_ chr2 1; rec_ chr10 1], Ok tt).
Proof. vm_compute. repeat split; reflexivity. Qed.

Example demo_records_good :
  Forall (fun r : wrec => good (header_kf demo_header) (fst r)) [rec_ chr10 1; rec_ chr2 1; rec_ chr1 5].
Proof. repeat constructor; eexists; split; vm_compute; reflexivity. Qed.

(* the premises of the composed theorem are satisfiable together: records that
   are their own line (decode = identity), keyed by their text as chromosome
   name, the left-most-minimum oracle of the sorter's extracted model, capacity
   2 (two spill files for three records) *)
From MafVerif Require Import model.Sorter.
Definition toy_view (s : str) : locatable := Plain (PStr s) PNone PNone.
Example demo_codec_contract : maf_codec_contract str toy_view (fun s => s) (fun s => Ok s).
Proof. intros kf a k Hk. exists a. auto. Qed.
Example demo_pick_contract : pick_contract leftmost_min.
Proof. exact leftmost_min_contract. Qed.
Example demo_composed_run :
  maf_sorter_iter str toy_view (fun s => s) (fun s => Ok s) leftmost_min 2 true
    (header_kf demo_header) [chr10; chr2; chr1; chr2]
  = Ok [chr1; chr2; chr2; chr10].
Proof. vm_compute. reflexivity. Qed.

(* ---------- closed form: the codec premise discharged from C04 (proofs/CodecContract.v) ---------- *)
From MafVerif Require model.Columns model.Layouts model.ColRecord proofs.LayoutFacts proofs.RenderFacts
  proofs.RenderFacts2 proofs.CodecContract.

(* The sorting writer as maf-lib configures it: items are typed records of one
   of the 14 built layouts as a Strict reader produces them, encode =
   str(record), decode = MafRecord.from_line(text, scheme, Strict), i.e.
   MafSorterCodec(scheme=...).  `maf_codec_contract` is no longer a premise: by
   C04 the rendering of such a record parses back to the identical record, for
   every view `v0` of a record as the dictionary the sort keys read.
   Remaining premises: the oracle laws of float()/uuid.UUID() (C04), the
   contract of the host's sorted()/heapq (pick_contract), capacity >= 1.
   Item type: records not holding the one-element list [Null] in a
   SequenceOfNullableYesOrNo column (the recorded C04 finding); the decoder
   refuses such a record, which no rendering of an item produces. *)
Theorem C10_sorting_writer_obeys_its_header_closed :
  forall (Or : Columns.oracles), RenderFacts.oracle_laws Or ->
  forall (l : Layouts.layout), In l LayoutFacts.layouts_ok ->
  forall (v0 : ColRecord.crec -> locatable)
         (pick_min : forall X : Type, (X -> X -> bool) -> list X -> option (X * list X))
         (c : nat) (al : bool),
    (1 <= c)%nat -> pick_contract pick_min ->
    forall (rkeys : CodecContract.layout_item Or l -> list str)
           (validate : CodecContract.layout_item Or l -> res unit) (h : wheader)
           (rs : list (CodecContract.layout_item Or l)),
    sortable h ->
    Forall (fun r => validate r = Ok tt) rs ->
    Forall (fun r => good (header_kf h) (v0 (proj1_sig r))) rs ->
    exists w ys,
      writer_session (CodecContract.layout_item Or l) (fun a => v0 (proj1_sig a)) (CodecContract.layout_enc Or l)
                     rkeys validate
                     (maf_sorter_iter (CodecContract.layout_item Or l) (fun a => v0 (proj1_sig a))
                                      (CodecContract.layout_enc Or l) (CodecContract.layout_dec Or l) pick_min c al)
                     h false rs = (w, Ok tt) /\
      w_closed _ w = true /\
      w_out _ w = wh_text h ++ col_lines _ rkeys h rs ++ map (CodecContract.layout_enc Or l) ys /\
      Permutation (map (CodecContract.layout_enc Or l) ys) (map (CodecContract.layout_enc Or l) rs) /\
      StronglySorted (fun a b => rec_ltb (header_kf h) (v0 (proj1_sig b)) (v0 (proj1_sig a)) = false) ys /\
      (header_coherent h -> reader_iter (wh_text h) (map (fun a => v0 (proj1_sig a)) ys)
                            = (map (fun a => v0 (proj1_sig a)) ys, Ok tt)).
Proof.
  intros Or HO l Hin v0 pick_min c al Hc Hp.
  exact (sorting_writer_composed (CodecContract.layout_item Or l) (fun a => v0 (proj1_sig a))
           (CodecContract.layout_enc Or l) (CodecContract.layout_dec Or l) pick_min c al Hc Hp
           (CodecContract.built_layout_codec_contract Or HO l v0 Hin)).
Qed.
Print Assumptions C10_sorting_writer_obeys_its_header_closed.

(* the codec contract itself, for every built layout *)
Theorem C10_maf_codec_contract_holds :
  forall (Or : Columns.oracles), RenderFacts.oracle_laws Or ->
  forall (l : Layouts.layout) (v0 : ColRecord.crec -> locatable), In l LayoutFacts.layouts_ok ->
    maf_codec_contract (CodecContract.layout_item Or l) (fun a => v0 (proj1_sig a))
                       (CodecContract.layout_enc Or l) (CodecContract.layout_dec Or l).
Proof. exact CodecContract.built_layout_codec_contract. Qed.
Print Assumptions C10_maf_codec_contract_holds.
