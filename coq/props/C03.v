(* C03 - placeholder while the proofs are being written *)
From MafVerif Require Import lib.Base.
