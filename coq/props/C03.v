(* C03 - Validation stringency changes how problems are reported, never what is
   parsed.  Property theorems only; proofs are in proofs/ReaderModes.v; the
   contract itself is spec/SpecModes.v (stringency_contract):
     - Silent logs nothing and never raises the format exception, nor does Lenient;
     - Lenient returns what Silent returns and logs one warning per collected error;
     - Strict raises MafFormat (tpe e0) (line e0) for the first collected error e0,
       and returns what Silent returns (logging nothing) when there is none.
   All theorems hold for every column semantics `sem`, every scheme registry,
   every text. *)
From MafVerif Require Import lib.Base lib.Str model.RecordOps model.Validation model.Header
  model.RecordParse model.Reader model.WriterMode spec.SpecModes proofs.ReaderModes.

(* header parsing: MafHeader.from_lines *)
Theorem C03_header_parsing :
  forall (C : Type) (registry : list (scheme C)) (lines : list str) (lg : logger),
    stringency_contract lg herrs same_header
      (header_from_lines registry lines (Some Silent) lg)
      (header_from_lines registry lines (Some Lenient) lg)
      (header_from_lines registry lines (Some Strict) lg).
Proof. intros C registry lines lg. exact (header_modes registry lines lg). Qed.
Print Assumptions C03_header_parsing.

(* record parsing: MafRecord.from_line with any column names / scheme / line number *)
Theorem C03_record_parsing :
  forall (C W : Type) (sem : colsem C W) line names sch ln lg,
    stringency_contract lg (@merrs C W) same_mrec
      (from_line sem line names sch ln (Some Silent) lg)
      (from_line sem line names sch ln (Some Lenient) lg)
      (from_line sem line names sch ln (Some Strict) lg).
Proof. intros. exact (from_line_modes sem line names sch ln lg). Qed.
Print Assumptions C03_record_parsing.

(* record validation: record.validate(validation_stringency=..) on any record;
   the three results are equal (the record keeps its own stringency) *)
Theorem C03_record_validation :
  forall (C W : Type) (sem : colsem C W) (r : mrec C W) lg reset sch,
    stringency_contract lg (@merrs C W) eq
      (record_validate sem r (Some Silent) lg reset sch)
      (record_validate sem r (Some Lenient) lg reset sch)
      (record_validate sem r (Some Strict) lg reset sch).
Proof. intros. exact (record_validate_modes sem r lg reset sch). Qed.
Print Assumptions C03_record_validation.

(* whole-file reading, opening: MafReader(lines, validation_stringency=.., scheme=..).
   Lenient may warn more than once for a header error (from_lines and the
   reader both process the header's errors) and adds the no-matching-scheme
   warning; Strict may emit that warning but no error warning. *)
Theorem C03_reader_open :
  forall (C : Type) (registry : list (scheme (cls C))) (lines : list str) override,
    exists rdS, reader_init registry lines (Some Silent) override = ([], Ok rdS) /\
    (exists lgL rdL, reader_init registry lines (Some Lenient) override = (lgL, Ok rdL) /\
                     same_reader rdS rdL /\ warns_all lgL (rd_errs rdS)) /\
    match rd_errs rdS with
    | [] => exists lgT rdT, reader_init registry lines (Some Strict) override = (lgT, Ok rdT) /\
                            same_reader rdS rdT /\ no_ignored lgT
    | e0 :: _ => exists lgT, reader_init registry lines (Some Strict) override = (lgT, Raise (format_of e0)) /\
                             no_ignored lgT
    end.
Proof. intros C registry lines override. exact (reader_open_modes registry lines override). Qed.
Print Assumptions C03_reader_open.

(* whole-file reading, per prefix of the iteration: Strict yields the records
   Silent yields up to the first error collected anywhere (opening or a data
   line) and then raises that error; without errors it yields the same records
   and ends the same way (end of input or the ordering error).
   The sort-key functions are parameters; their contract (total up to the
   documented ValueError) is property C08. *)
Theorem C03_whole_file :
  forall (C W K : Type) (sem : colsem C W) (registry : list (scheme (cls C)))
         (key_of : sorder -> list str -> rec (payload C W) -> res K) (key_lt : K -> K -> bool),
    (forall o cs r, match key_of o cs r with Ok _ => True | Raise e => e = ValueError end) ->
    forall (lines : list str) override,
    let rS := read_run sem registry key_of key_lt lines (Some Silent) override in
    let rL := read_run sem registry key_of key_lt lines (Some Lenient) override in
    let rT := read_run sem registry key_of key_lt lines (Some Strict) override in
    run_log rS = [] /\ end_not_format (run_end rS) /\
    (exists rdS, run_init rS = Ok rdS /\
       ok_same_reader (run_init rS) (run_init rL) /\
       Forall2 same_mrec (run_recs rS) (run_recs rL) /\ run_end rL = run_end rS /\
       run_errs rL = run_errs rS /\ warns_all (run_log rL) (run_errs rS) /\
       no_ignored (run_log rT) /\
       match run_errs rS with
       | [] => ok_same_reader (run_init rS) (run_init rT) /\
               Forall2 same_mrec (run_recs rS) (run_recs rT) /\ run_end rT = run_end rS
       | e0 :: _ =>
           run_end rT = EndRaise (format_of e0) /\
           match rd_errs rdS with
           | [] => ok_same_reader (run_init rS) (run_init rT) /\
                   Forall2 same_mrec (clean_prefix (@merrs C W) (run_recs rS)) (run_recs rT)
           | _ :: _ => run_init rT = Raise (format_of e0) /\ run_recs rT = []
           end
       end).
Proof.
  intros C W K sem registry key_of key_lt Hkey lines override.
  exact (read_run_modes sem registry key_of key_lt Hkey lines override).
Qed.
Print Assumptions C03_whole_file.

(* writing, opening: MafWriter(handle, header, validation_stringency=..) *)
Theorem C03_writer_open :
  forall (C : Type) (registry : list (scheme (cls C))) (h : header),
    stringency_contract LgWriter (fun w => herrs (w_header w)) same_writer
      (writer_init registry h (Some Silent))
      (writer_init registry h (Some Lenient))
      (writer_init registry h (Some Strict)).
Proof. intros C registry h. exact (writer_init_modes registry h). Qed.
Print Assumptions C03_writer_open.

(* writing, one `writer += record` from writers in the same state: Lenient does
   what Silent does and warns once per collected error; Strict writes the same
   lines when the record has no error and otherwise raises its first error and
   leaves the writer exactly as it was - nothing written, not even the
   column-name line of a scheme-less writer, whose scheme stays open - while
   Silent wrote (the column-name line if due and) the record's line *)
Theorem C03_writer_add :
  forall (C W : Type) (sem : colsem C W) (wS wL wT : writer C) (r : mrec C W),
    same_writer wS wL -> same_writer wS wT ->
    w_mode wS = Silent -> w_mode wL = Lenient -> w_mode wT = Strict ->
    let aS := writer_iadd sem wS r in
    let aL := writer_iadd sem wL r in
    let aT := writer_iadd sem wT r in
    fst (fst aS) = [] /\ not_format (snd aS) /\ snd aL = snd aS /\ same_writer (snd (fst aS)) (snd (fst aL)) /\
    forall r', snd aS = Ok r' ->
      fst (fst aL) = map (LIgnored LgWriter) (merrs r') /\ fst (fst aT) = [] /\
      match merrs r' with
      | [] => snd aT = Ok r' /\ same_writer (snd (fst aS)) (snd (fst aT))
      | e0 :: _ => snd aT = Raise (format_of e0) /\ snd (fst aT) = wT /\
                   exists col line, w_out (snd (fst aS)) = w_out wS ++ col ++ [line]
      end.
Proof. intros C W sem wS wL wT r. exact (writer_iadd_modes sem wS wL wT r). Qed.
Print Assumptions C03_writer_add.

(* ---------- non-vacuity: inputs on which errors are collected ---------- *)
Definition t_sem : colsem unit unit :=
  {| cs_build := fun _ _ => None; cs_invalid := fun _ _ => false; cs_str := fun _ _ => None;
     cs_isinst := fun _ _ => true; cs_key_text := fun _ _ => None; cs_key_int := fun _ _ => None |}.
Definition t_reg : list (scheme (cls unit)) := [].
(* "#k" (no separator), "#version x": errors MISSING_SEPARATOR@1, UNSUPPORTED_VERSION, MISSING_ANNOTATION_SPEC *)
Definition t_header : list str := [[35;107]%N; [35;118;101;114;115;105;111;110;32;120]%N].
Example header_three_modes :
  map (fun m => header_from_lines t_reg t_header (Some m) LgRoot) [Silent; Lenient; Strict] =
  let errs := [mkerr 2 (Some 1); mkerr 7 None; mkerr 8 None] in
  let recs := [(K_VERSION, {| hkey := K_VERSION; hval := HText [120%N] |})] in
  [ ([], Ok {| hrecs := recs; herrs := errs; hmode := Silent |});
    (map (LIgnored LgRoot) errs, Ok {| hrecs := recs; herrs := errs; hmode := Lenient |});
    ([], Raise (MafFormat 2 (Some 1))) ].
Proof. vm_compute. reflexivity. Qed.

(* file: "a<TAB>b", "1<TAB>2", "3" (wrong count): Silent reads two records, the
   second with an error on line 3; Strict yields the first and raises *)
Definition t_file : list str := [[97;9;98]%N; [49;9;50]%N; [51]%N].
Definition t_run (m : mode) := read_run t_sem t_reg (skey_of t_sem (fun _ => None)) skey_lt t_file (Some m) None.
Example file_three_modes :
  (length (run_recs (t_run Silent)), run_end (t_run Silent), skipn 2 (run_errs (t_run Silent)),
   length (run_recs (t_run Strict)), run_end (t_run Strict), length (run_log (t_run Lenient))) =
  (2%nat, EndStop, [mkerr 17 (Some 3)], 0%nat, EndRaise (MafFormat 6 None), 6%nat).
Proof. vm_compute. reflexivity. Qed.
