(* C15 - A record stays coherent under any sequence of column edits.
   Property theorems only; proofs are in proofs/RecordFacts.v. *)
From MafVerif Require Import lib.Base model.RecordOps model.RecordPool proofs.RecordFacts proofs.RecordPoolFacts.

(* every reachable state (any finite history of set/add/delete with any
   addressing form, explicit or implicit indexes, succeeding or failing) *)
Theorem C15_every_history_coherent :
  forall (ops : list (op Z)), Coherent (run empty_rec ops).
Proof. intros ops. exact (run_coherent ops empty_rec coherent_empty). Qed.
Print Assumptions C15_every_history_coherent.

(* an operation that fails leaves the record unchanged *)
Theorem C15_failed_op_changes_nothing :
  forall (ops : list (op Z)) (o : op Z) r' e,
    step (run empty_rec ops) o = (r', Raise e) -> r' = run empty_rec ops.
Proof.
  intros ops o r' e.
  exact (step_fail_unchanged _ o r' e (run_coherent ops empty_rec coherent_empty)).
Qed.
Print Assumptions C15_failed_op_changes_nothing.

(* lookups by name and by index agree, and every stored column reports the
   index it is stored at *)
Theorem C15_lookups_agree :
  forall (ops : list (op Z)) s c,
    let r := run empty_rec ops in
    getitem r (KStr s) = Ok (Some c) <->
    exists n, cidx c = Some (Z.of_nat n) /\ ckey c = s /\
              getitem r (KInt (Z.of_nat n)) = Ok (Some c).
Proof. intros ops s c. exact (lookups_agree _ (run_coherent ops empty_rec coherent_empty) s c). Qed.
Print Assumptions C15_lookups_agree.

(* the length is the highest occupied index plus one *)
Theorem C15_length_is_highest_plus_one :
  forall (ops : list (op Z)),
    let r := run empty_rec ops in
    rlist r = [] \/ exists c, nth_error (rlist r) (length (rlist r) - 1) = Some (Some c).
Proof. intros ops. exact (length_is_highest _ (run_coherent ops empty_rec coherent_empty)). Qed.
Print Assumptions C15_length_is_highest_plus_one.

(* iteration lists names in index order, consistently with name lookup *)
Theorem C15_iteration_by_index :
  forall (ops : list (op Z)) n s,
    let r := run empty_rec ops in
    nth_error (iter_names r) n = Some (Some s) <->
    exists c, nth_error (rlist r) n = Some (Some c) /\ ckey c = s /\ assoc s (rdict r) = Some c.
Proof. intros ops n s. exact (iter_names_agree _ (run_coherent ops empty_rec coherent_empty) n s). Qed.
Print Assumptions C15_iteration_by_index.

(* the same when the caller re-uses column objects: operands may be objects
   created earlier in the history (whose index an earlier call assigned, even
   a failing one) or the very object stored in a slot *)
Theorem C15_aliased_history_coherent :
  forall (d : col Z) (ops : list (pop Z)), Coherent (fst (prun d (empty_rec, []) ops)).
Proof. intros d ops. exact (prun_coherent d ops (empty_rec, []) coherent_empty). Qed.
Print Assumptions C15_aliased_history_coherent.

Theorem C15_aliased_failed_op_changes_nothing :
  forall (d : col Z) (ops : list (pop Z)) (o : pop Z) st' e,
    pstep d (prun d (empty_rec, []) ops) o = (st', Raise e) ->
    fst st' = fst (prun d (empty_rec, []) ops).
Proof.
  intros d ops o st' e.
  exact (pstep_fail_unchanged d _ o st' e (prun_coherent d ops (empty_rec, []) coherent_empty)).
Qed.
Print Assumptions C15_aliased_failed_op_changes_nothing.

(* non-vacuity: a history with a gap, a replacement, a failing clash (the
   input that broke the pinned tree), deletes by index and by name *)
Definition k (n : N) : str := [n].
Definition c_ (n : N) (i : option Z) (v : Z) : col Z := {| ckey := k n; cidx := i; cval := v |}.
Definition demo_ops : list (op Z) :=
  [ OSet (KInt 0) (c_ 65 None 1);         (* r[0] = A *)
    OSet (KInt 0) (c_ 66 None 2);         (* r[0] = B : refused, slot taken by A *)
    OSet (KStr (k 67)) (c_ 67 (Some 3) 3);(* r["C"] at explicit index 3: gap 1,2 *)
    OSet (KStr (k 65)) (c_ 65 None 4);    (* replace A, index inherited *)
    OSet (KStr (k 68)) (c_ 68 (Some (-1)) 5); (* negative index carried by the column: refused *)
    OAdd (c_ 69 None 6);                  (* append E at 4 *)
    ODel (KInt 4); ODel (KStr (k 67)) ].  (* delete E, then C: trims back to length 1 *)
Example demo_final :
  run empty_rec demo_ops = {| rdict := [(k 65, c_ 65 (Some 0) 4)]; rlist := [Some (c_ 65 (Some 0) 4)] |}.
Proof. vm_compute. reflexivity. Qed.
Example demo_outcomes :
  map (fun n => snd (step (run empty_rec (firstn n demo_ops)) (nth n demo_ops (OAdd (c_ 0 None 0)))))
      [0;1;2;3;4;5;6;7]%nat
  = [Ok tt; Raise ValueError; Ok tt; Ok tt; Raise KeyError; Ok tt; Ok tt; Ok tt].
Proof. vm_compute. reflexivity. Qed.

(* aliasing: r.add(A); r[5] = r[0] is refused and changes nothing; an object
   whose set failed after its index was assigned keeps that index *)
Definition demo_pops : list (pop Z) :=
  [ PAdd (CLit (c_ 65 None 1));                    (* object 0 stored at 0 *)
    PSet (PK (KInt 5)) (CSlot 0);                  (* r[5] = r[0] : index mismatch *)
    PSet (PK (KInt 0)) (CLit (c_ 66 None 2));      (* object 1: index 0 assigned, then refused (slot holds A) *)
    PAdd (CPool 1) ].                              (* the same object again: still index 0, refused again *)
Example demo_pool :
  prun (c_ 65 None 0) (empty_rec, []) demo_pops
  = ({| rdict := [(k 65, c_ 65 (Some 0) 1)]; rlist := [Some (c_ 65 (Some 0) 1)] |},
     [c_ 65 (Some 0) 1; c_ 66 (Some 0) 2]).
Proof. vm_compute. reflexivity. Qed.
