(* C20 - Registered extra schemes are first-class and registration is monotone.
   Property theorems only; proofs are in proofs/SchemeRegistryFacts.v.

   The world the registry reads is fixed for a history: [types] (names of
   get_column_types()), [fs] (file name -> content; every successful or failed
   (re)load reads the files again), [builtins] (get_built_in_filenames()),
   [mixok] (can extend_class synthesise the class).  A history is any list of
   operations (registration calls that succeed or fail, find_scheme_class,
   find_scheme, header validation) starting from the unloaded registry.
   Reading and writing records under a resolved scheme is the same code path
   for built-in and registered schemes once find_scheme and header validation
   answer alike (MafHeader.scheme() asks find_scheme on every call); that part
   is exercised by the check's Strict write/read round trips on /repo. *)
From Coq Require Import Permutation.
From MafVerif Require Import lib.Base lib.Str model.SchemeFactory model.Registry spec.SpecSchemes
     proofs.SchemeFactoryFacts proofs.SchemeBuildFacts proofs.SchemeSpecFacts proofs.SchemeRegistryFacts.

(* in every reachable state the cache is exactly what loading the built-ins
   plus all registered names gives *)
Theorem C20_cache_is_load_of_registered :
  forall mixok types fs builtins ops,
    let st := run mixok types fs builtins init_registry ops in
    loaded st = true -> load_all_schemes mixok types fs builtins (extras st) = Ok (cache st).
Proof. intros mixok types fs builtins ops. exact (run_inv mixok types fs builtins ops _ (reginv_init mixok types fs builtins)). Qed.
Print Assumptions C20_cache_is_load_of_registered.

(* a failed registration leaves the registry unchanged *)
Theorem C20_failed_registration_changes_nothing :
  forall mixok types fs builtins st files e st',
    step mixok types fs builtins st (ORegister files) = (RSchemes (Raise e), st') -> st' = st.
Proof. exact register_failed_unchanged. Qed.
Print Assumptions C20_failed_registration_changes_nothing.

(* registration is monotone: no later operation removes a registered name or
   unloads the registry *)
Theorem C20_registered_names_only_grow :
  forall mixok types fs builtins ops st f,
    In f (extras st) -> In f (extras (run mixok types fs builtins st ops)).
Proof. intros. now apply run_extras_grow. Qed.
Print Assumptions C20_registered_names_only_grow.

(* a successful call registers every file it names *)
Theorem C20_successful_call_registers :
  forall mixok types fs builtins st files l st',
    all_schemes mixok types fs builtins st files = (Ok l, st') ->
    loaded st' = true /\ cache st' = l /\ forall f, In f files -> In f (extras st').
Proof. exact all_schemes_ok_registers. Qed.
Print Assumptions C20_successful_call_registers.

(* main statement: after ANY history ops1, a successful registration call
   naming file f, and ANY further history ops2 (registrations that succeed or
   fail, lookups, validations), the definition in f resolves by its pair to a
   scheme with its version, its annotation and the layout the specification
   gives it among all loaded definitions, and a header naming it gets no
   error from header validation *)
Theorem C20_registered_scheme_is_first_class :
  forall mixok types fs builtins ops1 files l st2 ops2 f j,
    step mixok types fs builtins (run mixok types fs builtins init_registry ops1) (ORegister files)
      = (RSchemes (Ok l), st2) ->
    In f files -> fs f = FJson j -> jversion j <> [] -> jannot j <> [] ->
    let st := run mixok types fs builtins st2 ops2 in
    exists b data cols,
      find_scheme mixok types fs builtins st (Some (jversion j)) (Some (jannot j)) = (Ok (Some b), st) /\
      bversion b = jversion j /\ bannot b = jannot j /\
      load_all_scheme_data fs types (builtins ++ extras st) = Ok data /\
      load_columns types (jcolumns j) = Ok cols /\ In (datum_of j cols) data /\
      (clean_defs data -> layout mixok data (datum_of j cols) = Some (bcols b)) /\
      (jversion j <> jannot j ->
       header_validate mixok types fs builtins st {| hversion := Some (jversion j); hannot := Some (jannot j) |}
       = (Ok [], st)) /\
      (jversion j = jannot j ->
       header_validate mixok types fs builtins st {| hversion := Some (jversion j); hannot := None |}
       = (Ok [], st)).
Proof. exact history_registered_first_class. Qed.
Print Assumptions C20_registered_scheme_is_first_class.

(* the same holds for the definitions in the built-in files, in every loaded
   reachable state *)
Theorem C20_loaded_definitions_resolve :
  forall mixok types fs builtins ops f j,
    let st := run mixok types fs builtins init_registry ops in
    loaded st = true -> In f (builtins ++ extras st) -> fs f = FJson j ->
    jversion j <> [] -> jannot j <> [] ->
    exists b data cols,
      find_scheme mixok types fs builtins st (Some (jversion j)) (Some (jannot j)) = (Ok (Some b), st) /\
      find_scheme_class mixok types fs builtins st (Some (jversion j)) (Some (jannot j)) = (Ok (Some (Built b)), st) /\
      In (Built b) (cache st) /\ bversion b = jversion j /\ bannot b = jannot j /\
      load_all_scheme_data fs types (builtins ++ extras st) = Ok data /\
      load_columns types (jcolumns j) = Ok cols /\ In (datum_of j cols) data /\
      glayout (mcomb mixok) (length data) data (datum_of j cols) = Some (bcols b).
Proof.
  intros mixok types fs builtins ops f j st L.
  exact (registered_resolves mixok types fs builtins st f j
           (run_inv mixok types fs builtins ops _ (reginv_init mixok types fs builtins)) L).
Qed.
Print Assumptions C20_loaded_definitions_resolve.

(* built-ins behave as before: whatever has been registered, a built-in pair
   resolves to the very scheme (version, annotation, layout) it resolves to
   with no extras at all *)
Theorem C20_builtins_unchanged :
  forall mixok types fs builtins ops l0 f j b0,
    load_all_schemes mixok types fs builtins [] = Ok l0 ->
    let st := run mixok types fs builtins init_registry ops in
    loaded st = true -> In f builtins -> fs f = FJson j ->
    jversion j <> [] -> jannot j <> [] ->
    find (pred_pair (jversion j) (jannot j)) l0 = Some (Built b0) ->
    find_scheme mixok types fs builtins st (Some (jversion j)) (Some (jannot j)) = (Ok (Some b0), st).
Proof.
  intros mixok types fs builtins ops l0 f j b0 H0 st L.
  exact (builtin_unchanged mixok types fs builtins st l0 f j b0 H0
           (run_inv mixok types fs builtins ops _ (reginv_init mixok types fs builtins)) L).
Qed.
Print Assumptions C20_builtins_unchanged.

(* header validation consults the registry as it is now *)
Theorem C20_header_naming_resolved_scheme_validates :
  forall mixok types fs builtins ops v a b,
    let st := run mixok types fs builtins init_registry ops in
    loaded st = true ->
    find_scheme mixok types fs builtins st (Some v) (Some a) = (Ok (Some b), st) -> In (Built b) (cache st) ->
    bversion b = v -> bannot b = a -> v <> a ->
    header_validate mixok types fs builtins st {| hversion := Some v; hannot := Some a |} = (Ok [], st).
Proof.
  intros mixok types fs builtins ops v a b st L.
  exact (header_of_resolved_scheme_validates mixok types fs builtins st v a b
           (run_inv mixok types fs builtins ops _ (reginv_init mixok types fs builtins)) L).
Qed.
Print Assumptions C20_header_naming_resolved_scheme_validates.

(* ---------- non-vacuity: a two-file world and a history with a failing call ---------- *)
Definition t (n : N) : str := [n].
Definition jb : jfile := {| jversion := t 118; jannot := t 118; jextends := JNoneStr;
                           jcolumns := [[t 99; t 83]]; jfiltered := JNoneStr |}.      (* basic scheme "v" *)
Definition je : jfile := {| jversion := t 118; jannot := t 120; jextends := JVal (t 118);
                           jcolumns := [[t 100; t 83; t 33]; [t 99; t 83]]; jfiltered := JNull |}.
Definition jx : jfile := {| jversion := t 118; jannot := t 121; jextends := JVal (t 122);
                           jcolumns := []; jfiltered := JNull |}.                    (* unknown base *)
Definition demo_fs (n : str) : fileres :=
  if str_eqb n (t 66) then FJson jb else if str_eqb n (t 69) then FJson je
  else if str_eqb n (t 88) then FJson jx else FOpenError.
Definition ok2 : cls -> cls -> bool := fun _ _ => true.
Definition demo_ops : list op :=
  [ ORegister [t 88];                  (* fails on the unloaded registry: unknown base *)
    ORegister [t 69];                  (* succeeds *)
    ORegister [t 88; t 69];            (* fails again; e stays *)
    ORegister [t 77] ].                (* missing file *)
Definition demo_st := run ok2 [t 83] demo_fs [t 66] init_registry demo_ops.

Example demo_state : loaded demo_st = true /\ extras demo_st = [t 69] /\ length (cache demo_st) = 3%nat.
Proof. vm_compute. repeat split. Qed.

Example demo_outcomes :
  map (fun n => match fst (step ok2 [t 83] demo_fs [t 66]
                                 (run ok2 [t 83] demo_fs [t 66] init_registry (firstn n demo_ops))
                                 (nth n demo_ops (ORegister []))) with
                | RSchemes (Ok l) => Ok (length l) | RSchemes (Raise e) => Raise e | _ => Raise PlainException end)
      [0; 1; 2; 3]%nat
  = [Raise ValueError; Ok 3%nat; Raise ValueError; Raise (OSError true)].
Proof. vm_compute. reflexivity. Qed.

Example demo_resolves :
  fst (find_scheme ok2 [t 83] demo_fs [t 66] demo_st (Some (t 118)) (Some (t 120)))
  = Ok (Some {| bversion := t 118; bannot := t 120;
                bcols := [ (t 99, {| cname := t 99; ccls := CMix (CSrc (t 83)) (CSrc (t 83)); cdesc := [] |});
                           (t 100, {| cname := t 100; ccls := CSrc (t 83); cdesc := t 33 |}) ] |}).
Proof. vm_compute. reflexivity. Qed.

Example demo_headers :
  fst (header_validate ok2 [t 83] demo_fs [t 66] demo_st {| hversion := Some (t 118); hannot := Some (t 120) |}) = Ok []
  /\ fst (header_validate ok2 [t 83] demo_fs [t 66] demo_st {| hversion := Some (t 118); hannot := None |}) = Ok []
  /\ fst (header_validate ok2 [t 83] demo_fs [t 66] demo_st {| hversion := Some (t 118); hannot := Some (t 121) |})
     = Ok [HEADER_UNSUPPORTED_ANNOTATION_SPEC].
Proof. vm_compute. repeat split. Qed.
