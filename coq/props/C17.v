(* C17 - Reported line numbers point at the offending line.
   Property theorems only; proofs are in proofs/ReaderLines.v (with
   proofs/ReaderTotal.v).  Physical numbering (spec/SpecHeader.v): with H the
   number of leading pragma lines, pragma line k is line k, the column-name
   line (or the place where it is missing) is line H+1 = phys_column H, the
   j-th data line (0-based) is line H+2+j = phys_data H j.  The model computes
   numbers by a look-ahead counter; the theorems equate them with the physical
   positions for every file shape. *)
From MafVerif Require Import lib.Base lib.Str model.RecordOps model.Validation model.Header
  model.RecordParse model.Reader spec.SpecHeader spec.SpecModes proofs.ReaderModes proofs.ReaderTotal proofs.ReaderLines.

(* Everything a Silent run collects:
   - the reader's errors after opening are  pragma-line errors ++ errors
     without a number ++ column-line errors, where every pragma-line error is
     about the line it numbers (about_header_line: it is the diagnostic of
     that very line, or the duplicate-key diagnostic for it), and the
     column-line errors (count/name mismatch, or "missing column names" when
     the input ends after the pragmas) carry H+1;
   - the j-th record yielded is the parse of the j-th data line, remembers the
     number H+2+j, and all its errors carry that number;
   - the reader's final error list is those errors in order (plus, when the
     iteration stopped on an ordering error, the errors of the record being
     checked, numbered by its own line). *)
Theorem C17_line_numbers_are_physical :
  forall (C W K : Type) (sem : colsem C W) (registry : list (scheme (cls C)))
         (key_of : sorder -> list str -> rec (payload C W) -> res K) (key_lt : K -> K -> bool),
    (forall o cs r, match key_of o cs r with Ok _ => True | Raise e => e = ValueError end) ->
    Forall scheme_wf registry ->
    forall (lines : list str) (override : option (scheme (cls C))),
      wf_override override ->
      let hdr := fst (split_file lines) in
      let H := length hdr in
      let r := read_run sem registry key_of key_lt lines (Some Silent) override in
      exists rd, run_init r = Ok rd /\
        (exists perrs mid post, rd_errs rd = perrs ++ mid ++ post /\
            Forall (about_header_line 0 (map rstrip_crlf hdr)) perrs /\ no_line mid /\
            match snd (split_file lines) with
            | None => post = [mkerr T_HEADER_MISSING_COLUMN_NAMES (Some (phys_column H))]
            | Some _ => Forall (column_line_error H) post
            end) /\
        (forall j rj, nth_error (run_recs r) j = Some rj ->
            exists c data l, snd (split_file lines) = Some (c, data) /\ nth_error data j = Some l /\
              mline rj = Some (phys_data H j) /\ at_line (Some (phys_data H j)) (merrs rj) /\
              exists lg, from_line sem (rstrip_crlf l) None (rd_scheme rd) (Some (phys_data H j))
                                   (Some Silent) LgRoot = (lg, Ok rj)) /\
        (exists tail, run_errs r = rd_errs rd ++ concat (map (@merrs C W) (run_recs r)) ++ tail /\
                      at_line (Some (phys_data H (length (run_recs r)))) tail).
Proof.
  intros C W K sem registry key_of key_lt Hkey Hreg lines override Hov.
  exact (reader_line_numbers sem registry key_of key_lt Hkey Hreg lines override Hov).
Qed.
Print Assumptions C17_line_numbers_are_physical.

(* the numbers used above are positions in the input: pragma line k (0-based k
   < H) is lines[k]; data line j is lines[H+1+j] *)
Theorem C17_positions_in_the_input :
  forall (lines : list str),
    (forall k, (k < length (fst (split_file lines)))%nat ->
               nth_error lines k = nth_error (fst (split_file lines)) k) /\
    (forall c data j, snd (split_file lines) = Some (c, data) ->
               nth_error lines (length (fst (split_file lines)) + 1 + j) = nth_error data j) /\
    (forall c data, snd (split_file lines) = Some (c, data) ->
               nth_error lines (length (fst (split_file lines))) = Some c).
Proof.
  intros lines. split; [|split].
  - intros k. exact (split_file_header_index lines k).
  - intros c data j. exact (split_file_data_index lines c data j).
  - intros c data E. pose proof (split_file_app lines) as Ha.
    destruct (split_file lines) as [h t]. simpl in *. subst t. rewrite Ha at 1.
    rewrite nth_error_app2, Nat.sub_diag by lia. reflexivity.
Qed.
Print Assumptions C17_positions_in_the_input.

(* pragma-line errors: every error from_lines' loop adds for the lines
   numbered n+1.. is the diagnostic of the line it numbers *)
Theorem C17_pragma_line_errors :
  forall (ls : list str) (n : Z) recs errs,
    exists added, snd (parse_header_lines n ls recs errs) = errs ++ added /\
                  Forall (about_header_line n ls) added.
Proof. intros ls n recs errs. exact (parse_header_lines_about ls n recs errs). Qed.
Print Assumptions C17_pragma_line_errors.

(* a Strict reader raises the first error a Silent reader collects (C03), so
   the exception's line number is physical too: whole-run statement *)
Theorem C17_strict_exception_number :
  forall (C W K : Type) (sem : colsem C W) (registry : list (scheme (cls C)))
         (key_of : sorder -> list str -> rec (payload C W) -> res K) (key_lt : K -> K -> bool),
    (forall o cs r, match key_of o cs r with Ok _ => True | Raise e => e = ValueError end) ->
    forall (lines : list str) override e0 rest,
      run_errs (read_run sem registry key_of key_lt lines (Some Silent) override) = e0 :: rest ->
      run_end (read_run sem registry key_of key_lt lines (Some Strict) override)
      = EndRaise (MafFormat (etpe e0) (eline e0)).
Proof.
  intros C W K sem registry key_of key_lt Hkey lines override e0 rest He.
  destruct (read_run_modes sem registry key_of key_lt Hkey lines override) as (_ & _ & rdS & _ & _ & _ & _ & _ & _ & _ & HT).
  rewrite He in HT. exact (proj1 HT).
Qed.
Print Assumptions C17_strict_exception_number.

(* the self-consistency errors record.validate reports (out of sync, column
   index out of sync) carry the record's own line number, whatever the record *)
Theorem C17_sync_errors_carry_record_line :
  forall (C W : Type) (r : rec (payload C W)) (ln : option Z),
    Forall (fun e => eline e = ln /\
                     (etpe e = T_RECORD_OUT_OF_SYNC \/ etpe e = T_RECORD_COLUMN_INDEX_OUT_OF_SYNC))
           (sync_errs r ln).
Proof. intros C W r ln. exact (sync_errs_at_line r ln). Qed.
Print Assumptions C17_sync_errors_carry_record_line.

(* ---------- non-vacuity: the column line is the last line (the input that
   broke the pinned tree), and a defect on the second data line ---------- *)
Definition t_sem : colsem unit unit :=
  {| cs_build := fun _ _ => None; cs_invalid := fun _ _ => false; cs_str := fun _ _ => None;
     cs_isinst := fun _ _ => true; cs_key_text := fun _ _ => None; cs_key_int := fun _ _ => None |}.
(* a one-scheme registry: version "v", annotation "v" (basic), columns x, y *)
Definition t_scheme : scheme (cls unit) :=
  {| s_version := [118%N]; s_annot := [118%N]; s_cols := [([120%N], CPlain); ([121%N], CPlain)]; s_norestr := false |}.
Definition t_run (lines : list str) :=
  read_run t_sem [t_scheme] (skey_of t_sem (fun _ => None)) skey_lt lines (Some Silent) None.
(* "#version v" / "a" : one column name where the scheme has two -> error 22 at line 2 = H+1 *)
Example column_line_last :
  run_errs (t_run [[35;118;101;114;115;105;111;110;32;118]%N; [97%N]]) = [mkerr 22 (Some 2)].
Proof. vm_compute. reflexivity. Qed.
(* "#version v" / "#k" / "x<TAB>y" / "1<TAB>2" / "3" : pragma error at 2, data error at 5 = H+2+1 *)
Example defects_at_lines_2_and_5 :
  run_errs (t_run [[35;118;101;114;115;105;111;110;32;118]%N; [35;107]%N; [120;9;121]%N; [49;9;50]%N; [51%N]])
  = [mkerr 2 (Some 2); mkerr 17 (Some 5)].
Proof. vm_compute. reflexivity. Qed.
Example hypotheses_hold : Forall scheme_wf [t_scheme] /\ wf_override (@None (scheme (cls unit))).
Proof. split; [repeat constructor; simpl; intuition discriminate|intros o H; discriminate]. Qed.
