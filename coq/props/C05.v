(* C05 - Public and masked schemes never let germline information through.
   Property theorems only; proofs in proofs/MaskFacts.v (+ ParseFacts, ColumnFacts). *)
From Coq Require Import String.
From MafVerif Require Import lib.Base lib.Str gen.GenClasses model.Classes model.Columns model.Layouts
     model.RecordOps model.ColRecord spec.SpecLayouts proofs.LayoutFacts proofs.ColumnFacts proofs.MaskFacts.
Open Scope string_scope.

(* (a) In the four public/masked layouts built from the regenerated
   definitions, each of the six germline columns is a class synthesised as
   type(name, (RequireNullValue, base), {}) whose C3 MRO puts
   RequireNullValue.__validate__ first, whose null spelling is the empty text
   only, and of which (within the universe of shipped and synthesised classes)
   only the class itself is an instance. *)
Theorem C05_germline_columns_are_must_be_null :
  forallb (germline_masked_in_g class_table layouts_ok) masked_layouts = true /\
  forallb (germline_closed_in_g class_table layouts_ok universe) masked_layouts = true.
Proof. exact (conj all_masked germline_classes_closed). Qed.
Print Assumptions C05_germline_columns_are_must_be_null.

(* (b) parse path, every validation mode, every line: a record parsed under a
   public/masked layout exposes in a germline column nothing or the null value
   (record.value(name) is None), and what it renders there is the empty text -
   so the offending text cannot be re-emitted from that record. *)
Theorem C05_parsed_record_never_exposes_germline :
  forall (Or : oracles) annot g l m ln line r errs,
    In annot masked_layouts -> In g germline6 -> find_layout layouts_ok annot = Some l ->
    from_line class_table Or m None (Some (l_cols l)) ln line = Ok (r, errs) ->
    rec_value r (s2l g) = VNone /\
    forall n c, nth_error (rlist r) n = Some (Some c) -> ckey c = s2l g ->
      v_val (cval c) = VNone /\ slot_str class_table (Some c) = Ok [].
Proof. exact masked_record_exposes_only_null. Qed.
Print Assumptions C05_parsed_record_never_exposes_germline.

(* (b') Strict mode: a line is accepted only if every germline field is the empty text *)
Theorem C05_strict_rejects_non_null_germline :
  forall (Or : oracles) annot g l ln line r errs j,
    In annot masked_layouts -> In g germline6 -> find_layout layouts_ok annot = Some l ->
    from_line class_table Or Strict None (Some (l_cols l)) ln line = Ok (r, errs) ->
    nth_error (map fst (l_cols l)) j = Some (s2l g) ->
    nth_error (split TAB (rstrip_crlf line)) j = Some [].
Proof. exact masked_strict_requires_empty. Qed.
Print Assumptions C05_strict_rejects_non_null_germline.

(* (c) the protected-only VCF columns are absent from the public layouts *)
Theorem C05_public_layouts_have_no_vcf_columns :
  forallb (no_vcf_in_g layouts_ok) public_layouts = true.
Proof. exact public_has_no_vcf. Qed.
Print Assumptions C05_public_layouts_have_no_vcf_columns.

(* (d) Strict writer, records built through the API in any way (columns of any
   shipped or synthesised class, any value, any index): if the writer's
   validation lets the record through, the column at each germline position is
   null and renders as the empty text. *)
Theorem C05_strict_writer_emits_only_null_germline :
  forall annot g l r line j,
    In annot masked_layouts -> In g germline6 -> find_layout layouts_ok annot = Some l ->
    (forall n c, nth_error (rlist r) n = Some (Some c) -> In (v_cls (cval c)) universe) ->
    writer_emits (l_cols l) r = Some line ->
    nth_error (map fst (l_cols l)) j = Some (s2l g) ->
    exists c, nth_error (rlist r) j = Some (Some c) /\ ckey c = s2l g /\
              v_val (cval c) = VNone /\ slot_str class_table (Some c) = Ok [].
Proof. exact masked_writer_emits_only_null. Qed.
Print Assumptions C05_strict_writer_emits_only_null_germline.

(* the general lemma behind (b): under RequireNullValue only a null value validates *)
Theorem C05_must_be_null_admits_only_null :
  forall (Or : oracles) e t v, e_custom e = true -> fo Or (with_rnv e) t = Valid v -> in_null_values e v = true.
Proof. exact rnv_only_null. Qed.
Print Assumptions C05_must_be_null_admits_only_null.

(* non-vacuity: a masked layout exists, has the six columns, and a concrete line
   with a germline allele is refused in Strict mode and hidden in Silent mode *)
Example masked_layout_present :
  match find_layout layouts_ok "gdc-1.0.0-public" with
  | Some l => forallb (fun g => is_some (assoc (s2l g) (l_cols l))) germline6 && Nat.eqb (length (l_cols l)) 119
  | None => false
  end = true.
Proof. vm_compute. reflexivity. Qed.

(* ====================================================================== *)
(* reader level                                                            *)
(* ====================================================================== *)
(* MafReader (model/Reader.v: lines / path / .gz are the same run over the
   file's lines) instantiated with the concrete columns (model/ColsemColumns.v)
   and a masked layout as its scheme - whether the pragmas selected it or it
   was forced with scheme= (`rd_scheme rd`).  Proofs in proofs/FileIOMask.v:
   generic over the column semantics for a column whose class only validates
   its null value, then instantiated for the germline columns of the four
   masked layouts with the tables abstract. *)
From MafVerif Require Import model.Validation model.Header model.RecordParse model.Reader model.ColsemColumns
  proofs.FileIOMask.

(* (e) every stringency: in every record the reader yields, each germline
   column is absent or holds the null value (None) and renders as the empty
   text - both in the slot list (iteration order, str(record)) and in the name
   map (record[name], record.value(name)) *)
Theorem C05_reader_never_exposes_germline :
  forall (Or : oracles) (registry : list (scheme (cls cref))) (K : Type)
         (key_of : sorder -> list str -> rec (payload cref pyval) -> res K) (key_lt : K -> K -> bool)
         annot g l lines m override rd r,
    In annot masked_layouts -> In g germline6 -> find_layout layouts_ok annot = Some l ->
    let sem := columns_sem class_table Or in
    let rn := read_run sem registry key_of key_lt lines m override in
    run_init rn = Ok rd -> rd_scheme rd = Some (scheme_of_layout l) -> In r (run_recs rn) ->
    (forall c, In (Some c) (rlist (mcols r)) -> ckey c = s2l g ->
       (exists mix, pv (cval c) = PTyped mix VNone) /\ col_text sem (pv (cval c)) = Some []) /\
    (forall k c, In (k, c) (rdict (mcols r)) -> ckey c = s2l g ->
       (exists mix, pv (cval c) = PTyped mix VNone) /\ col_text sem (pv (cval c)) = Some []).
Proof.
  intros Or registry K key_of key_lt annot g l lines m override rd r.
  exact (reader_never_exposes_germline Or registry K key_of key_lt annot g l lines m override rd r).
Qed.
Print Assumptions C05_reader_never_exposes_germline.

(* (e') Strict: data line k (0-based after the column line; `rd_next` and
   `rd_pending` are the data lines the opened reader holds) carries a
   non-empty text at a germline position: the reader yields no record for it
   or for any later line, the run does not end normally, and when every
   earlier line yielded a record it ends with the format exception carrying
   that line's physical number *)
Theorem C05_strict_reader_stops_at_germline :
  forall (Or : oracles) (registry : list (scheme (cls cref))) (K : Type)
         (key_of : sorder -> list str -> rec (payload cref pyval) -> res K) (key_lt : K -> K -> bool)
         annot g l lines override rd cur k line,
    In annot masked_layouts -> In g germline6 -> find_layout layouts_ok annot = Some l ->
    let s := scheme_of_layout l in
    let rn := read_run (columns_sem class_table Or) registry key_of key_lt lines (Some Strict) override in
    run_init rn = Ok rd -> rd_scheme rd = Some s -> rd_next rd = Some cur ->
    nth_error (cur :: rd_pending rd) k = Some line ->
    (exists t, In (s2l g, t) (zip (s_names s) (split TAB (rstrip_crlf line))) /\ t <> []) ->
    (length (run_recs rn) <= k)%nat /\ run_end rn <> EndStop /\
    (length (run_recs rn) = k ->
     exists tp, run_end rn = EndRaise (MafFormat tp (Some (rd_lineno rd + Z.of_nat k)))).
Proof.
  intros Or registry K key_of key_lt annot g l lines override rd cur k line.
  exact (strict_reader_stops_at_germline Or registry K key_of key_lt annot g l lines override rd cur k line).
Qed.
Print Assumptions C05_strict_reader_stops_at_germline.
