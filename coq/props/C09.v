(* C09 - Reading enforces the declared sort order exactly.  Property theorems
   only; proofs are in proofs/SortOrderCheckFacts.v and
   proofs/SortOrderHeaderFacts.v.  Model: model/OrderCheck.v.
   `reader_iter header_lines rs` is what `for r in MafReader(...)` yields and how
   the loop ends, for a file with these header lines whose data lines parse to
   the records rs.  `good kf r`: r is truthy (has at least one column) and its
   key under kf is built and well formed (C08 says when).  `rec_ltb kf a b`:
   a's key is strictly before b's. *)
From MafVerif Require Import lib.Base lib.SortOrderLib model.SortOrder model.OrderCheck
  spec.SpecOrder proofs.SortOrderFacts proofs.SortOrderCheckFacts proofs.SortOrderHeaderFacts
  proofs.SortOrderReadFacts.
From Coq Require Import Sorted.

(* which order and contigs the reader enforces: the first line that yields a
   sort.order record, rebuilt with the first line that yields a contigs record;
   Unsorted when there is none (absent or unrecognised) *)
Theorem C09_enforced_order_is_the_declared_one :
  forall hl, h_sort_order (header_from_lines hl) = declared hl.
Proof. exact header_sort_order_declared. Qed.
Print Assumptions C09_enforced_order_is_the_declared_one.

(* a sortable order is declared: all records are yielded iff they are in
   non-decreasing key order (all pairs, equivalently consecutive pairs) *)
Theorem C09_all_records_iff_sorted :
  forall hl kf rs,
    sort_key (declared hl) = Ok kf -> Forall (good kf) rs ->
    (reader_iter hl rs = (rs, Ok tt) <-> StronglySorted (fun a b => rec_ltb kf b a = false) rs) /\
    (reader_iter hl rs = (rs, Ok tt) <-> chain_ok (rec_ltb kf) rs).
Proof. exact read_all_iff_sorted. Qed.
Print Assumptions C09_all_records_iff_sorted.

(* otherwise exactly the records before the first descent, then ValueError *)
Theorem C09_prefix_before_first_descent :
  forall hl kf pre a b post,
    sort_key (declared hl) = Ok kf -> Forall (good kf) (pre ++ a :: b :: post) ->
    chain_ok (rec_ltb kf) (pre ++ [a]) -> rec_ltb kf b a = true ->
    reader_iter hl (pre ++ a :: b :: post) = (pre ++ [a], Raise ValueError).
Proof. exact read_prefix_before_descent. Qed.
Print Assumptions C09_prefix_before_first_descent.

(* there is no third outcome *)
Theorem C09_dichotomy :
  forall hl kf rs,
    sort_key (declared hl) = Ok kf -> Forall (good kf) rs ->
    reader_iter hl rs = (rs, Ok tt) \/
    exists pre a b post, rs = pre ++ a :: b :: post /\ chain_ok (rec_ltb kf) (pre ++ [a]) /\
      rec_ltb kf b a = true /\ reader_iter hl rs = (pre ++ [a], Raise ValueError).
Proof. exact read_dichotomy. Qed.
Print Assumptions C09_dichotomy.

(* Unsorted / Unknown / unrecognised / nothing declared: never rejected, for
   any records whatsoever *)
Theorem C09_no_declared_order_never_rejects :
  forall hl rs, is_coordinate (so_cls (declared hl)) = false -> reader_iter hl rs = (rs, Ok tt).
Proof. exact read_no_order_never_rejects. Qed.
Print Assumptions C09_no_declared_order_never_rejects.

(* the key function of a declared sortable order: barcodes or not, and the
   header's contigs *)
Theorem C09_declared_key_function :
  forall hl,
    sort_key (declared hl) =
    match first_rec k_sort_order hl with
    | Some (HSort so) =>
        if is_coordinate (so_cls so) then
          Ok {| kf_bar := match so_cls so with CBarcodesAndCoordinate => true | _ => false end;
                kf_contigs := match first_rec k_contigs hl with
                              | Some (HContigs l) => map PStr l | _ => [] end |}
        else Raise NotImplementedError
    | _ => Raise NotImplementedError
    end.
Proof. exact declared_sort_key. Qed.
Print Assumptions C09_declared_key_function.

(* ---------- non-vacuity ---------- *)
Definition line (s : list N) : str := s.
(* "#sort.order Coordinate" , "#contigs chr1,chr2,chr10" *)
Definition l_so : str := [35;115;111;114;116;46;111;114;100;101;114;32;67;111;111;114;100;105;110;97;116;101]%N.
Definition l_ct : str := [35;99;111;110;116;105;103;115;32;99;104;114;49;44;99;104;114;50;44;99;104;114;49;48]%N.
(* "#sort.order Karyotypic" *)
Definition l_bad : str := [35;115;111;114;116;46;111;114;100;101;114;32;75;97;114;121;111;116;121;112;105;99]%N.
Definition chr1 : str := [99;104;114;49]%N.
Definition chr2 : str := [99;104;114;50]%N.
Definition chr10 : str := [99;104;114;49;48]%N.
Definition r_ (c : str) (s : Z) : locatable := Maf [(n_Chromosome, PStr c); (n_Start, PInt s); (n_End, PInt s)].

Example demo_declared :
  sort_key (declared [l_bad; l_ct; l_so]) =
  Ok {| kf_bar := false; kf_contigs := [PStr chr1; PStr chr2; PStr chr10] |}.
Proof. vm_compute. reflexivity. Qed.

(* karyotypic order: chr2 before chr10; sorted file read to the end *)
Example demo_sorted :
  reader_iter [l_so; l_ct] [r_ chr1 9; r_ chr1 10; r_ chr2 1; r_ chr10 1; r_ chr10 1]
  = ([r_ chr1 9; r_ chr1 10; r_ chr2 1; r_ chr10 1; r_ chr10 1], Ok tt).
Proof. vm_compute. reflexivity. Qed.

(* first descent at index 3: exactly three records, then ValueError *)
Example demo_descent :
  reader_iter [l_so; l_ct] [r_ chr1 9; r_ chr2 1; r_ chr10 1; r_ chr2 5; r_ chr10 7]
  = ([r_ chr1 9; r_ chr2 1; r_ chr10 1], Raise ValueError).
Proof. vm_compute. reflexivity. Qed.

(* the hypotheses are met by these records *)
Example demo_good :
  let kf := {| kf_bar := false; kf_contigs := [PStr chr1; PStr chr2; PStr chr10] |} in
  Forall (good kf) [r_ chr1 9; r_ chr2 1; r_ chr10 1].
Proof.
  repeat constructor; eexists; split; vm_compute; reflexivity.
Qed.

(* an unrecognised name only: nothing is enforced *)
Example demo_unrecognised :
  reader_iter [l_bad] [r_ chr2 5; r_ chr1 1] = ([r_ chr2 5; r_ chr1 1], Ok tt).
Proof. vm_compute. reflexivity. Qed.

(* outside the hypotheses: a record with no columns is falsy, so the record
   after it is not compared with anything (here chr1:1 after chr2:5 passes) *)
Example demo_falsy_record_resets_the_check :
  reader_iter [l_so] [r_ chr2 5; Maf []; r_ chr1 1] = ([r_ chr2 5; Maf []; r_ chr1 1], Ok tt).
Proof. vm_compute. reflexivity. Qed.
