(* C16 - Reading arbitrary text terminates and fails only in documented ways.
   Property theorems only; proofs are in proofs/ReaderTotal.v and
   proofs/ReaderLines.v.  `read_all` (MafReader(lines, ...) then iterating to
   exhaustion) is a total function defined by structural recursion on the list
   of lines: that it is defined for every input is the termination claim.
   The theorems hold for every column semantics `sem` (what building and
   validating a typed column does), every registry of schemes whose column
   names are distinct (schemes are dicts), every text, every mode. *)
From MafVerif Require Import lib.Base lib.Str model.RecordOps model.Validation model.Header
  model.RecordParse model.Reader spec.SpecHeader proofs.ReaderTotal proofs.ReaderLines.

(* for sort keys that are total up to the documented ValueError (property C08) *)
Theorem C16_reading_is_total :
  forall (C W K : Type) (sem : colsem C W) (registry : list (scheme (cls C)))
         (key_of : sorder -> list str -> rec (payload C W) -> res K) (key_lt : K -> K -> bool),
    (forall o cs r, match key_of o cs r with Ok _ => True | Raise e => e = ValueError end) ->
    Forall scheme_wf registry ->
    forall (lines : list str) (m : option mode) (override : option (scheme (cls C))),
      wf_override override ->
      match read_all sem registry key_of key_lt lines m override with
      | Ok rs => length rs = data_line_count lines           (* one record per line after the column line *)
      | Raise (MafFormat _ _) => m = Some Strict             (* only Strict raises the format exception *)
      | Raise ValueError => declares_sortable registry lines (* only under a declared coordinate-type order *)
      | Raise _ => False                                     (* nothing else escapes (validate no longer asserts: out-of-sync
                                                                records are reported as errors, and parsed records are in sync) *)
      end.
Proof.
  intros C W K sem registry key_of key_lt Hkey Hreg lines m override Hov.
  exact (read_all_total sem registry key_of key_lt Hkey Hreg lines m override Hov).
Qed.
Print Assumptions C16_reading_is_total.

(* the same for the concrete keys of sort_order.py as modelled (no hypothesis
   on keys left): chromosome by name or contig index, positions by int(),
   barcodes as text; `py_int` is the host's int() *)
Theorem C16_reading_is_total_concrete_keys :
  forall (C W : Type) (sem : colsem C W) (py_int : str -> option Z) (registry : list (scheme (cls C))),
    Forall scheme_wf registry ->
    forall (lines : list str) (m : option mode) (override : option (scheme (cls C))),
      wf_override override ->
      match read_all sem registry (skey_of sem py_int) skey_lt lines m override with
      | Ok rs => length rs = data_line_count lines
      | Raise (MafFormat _ _) => m = Some Strict
      | Raise ValueError => declares_sortable registry lines
      | Raise _ => False
      end.
Proof.
  intros C W sem py_int registry Hreg lines m override Hov.
  exact (read_all_total sem registry (skey_of sem py_int) skey_lt (skey_of_total sem py_int) Hreg lines m override Hov).
Qed.
Print Assumptions C16_reading_is_total_concrete_keys.

(* "declares a sortable order" in terms of the header spec: the first
   well-formed sort.order pragma among the pragma lines names Coordinate or
   BarcodesAndCoordinate *)
Theorem C16_sortable_means_declared :
  forall (C : Type) (registry : list (scheme (cls C))) (lines : list str),
    declares_sortable registry lines ->
    exists v, kept_value SP_SORT (fst (expected_header (map rstrip_crlf (fst (split_file lines))))) = Some v /\
              In v SP_COORD_NAMES.
Proof. intros C registry lines. exact (declares_sortable_spec registry lines). Qed.
Print Assumptions C16_sortable_means_declared.

(* a line that does not parse never makes the non-strict modes fail: parsing
   one line under a scheme returns a record (whose errors all carry the line
   number) or, in Strict mode only, raises the format exception *)
Theorem C16_malformed_line_is_not_fatal :
  forall (C W : Type) (sem : colsem C W) (s : scheme (cls C)) (line : str) ln (m : mode) lg,
    scheme_wf s ->
    (exists lg' r, from_line sem line None (Some s) ln (Some m) lg = (lg', Ok r) /\
                   mline r = ln /\ at_line ln (merrs r)) \/
    (m = Strict /\ exists e0, from_line sem line None (Some s) ln (Some m) lg = ([], Raise (MafFormat (etpe e0) (eline e0)))).
Proof. intros C W sem s line ln m lg. exact (from_line_cases sem s line ln m lg). Qed.
Print Assumptions C16_malformed_line_is_not_fatal.

(* ---------- non-vacuity ---------- *)
Definition t_sem : colsem unit unit :=
  {| cs_build := fun _ _ => None; cs_invalid := fun _ _ => false; cs_str := fun _ _ => None;
     cs_isinst := fun _ _ => true; cs_key_text := fun _ _ => None; cs_key_int := fun _ _ => None |}.
(* digits only, enough for the example *)
Definition t_int (s : str) : option Z :=
  match s with [c] => if ((48 <=? c) && (c <=? 57))%N then Some (Z.of_N c - 48) else None | _ => None end.
Definition t_read (lines : list str) (m : mode) :=
  read_all t_sem [] (skey_of t_sem t_int) skey_lt lines (Some m) None.
(* "#sort.order Coordinate" / "Chromosome<TAB>Start_Position<TAB>End_Position" / "c<TAB>5<TAB>5" / "c<TAB>3" / "c<TAB>1<TAB>1":
   Silent: three records (the malformed middle line is a record with an error and is skipped by the order check);
   Strict: the format exception (missing version); *)
Definition so_line : str := [35;115;111;114;116;46;111;114;100;101;114;32;67;111;111;114;100;105;110;97;116;101]%N.
Definition col_line : str := C_CHROM ++ [9%N] ++ C_START ++ [9%N] ++ C_END.
Definition t_file : list str := [so_line; col_line; [99;9;53;9;53]%N; [99;9;51]%N; [99;9;49;9;49]%N].
Example reads_three_records :
  match t_read t_file Silent with Ok rs => length rs = 3%nat | Raise _ => False end.
Proof. vm_compute. reflexivity. Qed.
Example strict_raises_format : t_read t_file Strict = Raise (MafFormat 6 None).
Proof. vm_compute. reflexivity. Qed.
(* out of order: "c 5 5" then "c 3 3" *)
Example ordering_error :
  t_read [so_line; col_line; [99;9;53;9;53]%N; [99;9;51;9;51]%N] Silent = Raise ValueError.
Proof. vm_compute. reflexivity. Qed.
Example hypotheses_hold : Forall (@scheme_wf unit) [] /\ wf_override (@None (scheme (cls unit))).
Proof. split; [constructor|intros o H; discriminate]. Qed.
