(* C11 - Overlap iteration partitions its inputs into exact overlap groups.
   Property theorems only; the specification is spec/SpecOverlap.v, the proofs
   are in proofs/OverlapFacts.v, OverlapGroups.v, OverlapRefine.v, OverlapOrder.v. *)
From MafVerif Require Import lib.Base lib.OverlapLib model.Overlap spec.SpecOverlap
     proofs.OverlapFacts proofs.OverlapGroups proofs.OverlapRefine proofs.OverlapOrder.

(* ---- how a record is seen by the specification under a configuration:
   class = (barcode pair when grouping by barcodes, chromosome), where the
   chromosome is its rank in the contig list when one is supplied - in BOTH
   grouping modes - and its name otherwise *)
Definition ocls (c : cfg) (r : orec) : ccls := kcls (okeyK c r).
Definition class_before : ccls -> ccls -> Prop := clt ccls_cmp.
Example ocls_unfolded c r :
  ocls c r = {| cbar := if by_barcodes c then Some (rtumor r, rnormal r) else None;
                cchr := match contigs c with
                        | [] => CName (rchr r)
                        | _ :: _ => match index_of (rchr r) (contigs c) with
                                    | Some n => CRank n | None => CRank 0 end
                        end |}.
Proof. reflexivity. Qed.

(* the hypotheses of the property *)
Definition truthy_records (xss : list (list orec)) : Prop :=
  forall r, In r (concat xss) -> rtruthy r = true.
Definition contigs_cover (c : cfg) (xss : list (list orec)) : Prop :=
  forall r, In r (concat xss) -> known_contig c r.
Definition proper_intervals (xss : list (list orec)) : Prop :=
  forall r, In r (concat xss) -> wf_interval rstart rend r.
Definition inputs_sorted (c : cfg) (xss : list (list orec)) : Prop :=
  Forall (sorted_input (ocls c) rstart rend class_before) xss.

(* C11, main statement: for every number of inputs, every configuration
   (barcode grouping on/off, contig list present/absent), all inputs sorted by
   the chosen order, intervals with start <= end:
   list(LocatableOverlapIterator(inputs, ...)) terminates normally and its
   groups are an exact grouping (SpecOverlap.exact_grouping): one slot per
   input; concatenating slot i over the groups gives input i; no group is
   empty; two records share a group iff they are linked by a chain of
   closed-interval overlaps within one class; groups ascend in key order. *)
Theorem C11_exact_grouping :
  forall (c : cfg) (xss : list (list orec)),
    truthy_records xss -> contigs_cover c xss -> proper_intervals xss -> inputs_sorted c xss ->
    exists gs, o_overlap_iter c xss = Done gs /\
               exact_grouping (ocls c) rstart rend class_before xss gs.
Proof.
  intros c xss Ht Hc Hw Hs.
  exact (overlap_iter_exact rtruthy ccls_cmp ccls_eqb (okey c) ccls_order (okeyK c) xss
           Ht (fun r H => okey_K c r (Hc r H)) Hw Hs).
Qed.
Print Assumptions C11_exact_grouping.

(* a supplied contig order is honoured with and without barcode grouping:
   whenever the barcodes do not decide (always, without barcode grouping), the
   classes of two records are ordered / equal as their contig ranks are *)
Theorem C11_contig_order_honoured_in_both_modes :
  forall (c : cfg) a b na nb,
    contigs c <> [] ->
    index_of (rchr a) (contigs c) = Some na -> index_of (rchr b) (contigs c) = Some nb ->
    (by_barcodes c = false \/ (rtumor a = rtumor b /\ rnormal a = rnormal b)) ->
    (class_before (ocls c a) (ocls c b) <-> (na < nb)%nat) /\
    (ocls c a = ocls c b <-> na = nb).
Proof. exact contig_rank_decides. Qed.
Print Assumptions C11_contig_order_honoured_in_both_modes.

(* a chromosome missing from the supplied contig list is reported *)
Theorem C11_unknown_contig_is_reported :
  forall (c : cfg) r, contigs c <> [] -> ~ In (rchr r) (contigs c) -> okey c r = Raise ValueError.
Proof. exact okey_unknown. Qed.
Print Assumptions C11_unknown_contig_is_reported.

(* an input that is out of order is reported, never silently mis-grouped:
   a run that ends normally certifies that every input was sorted.  (No
   hypothesis on the intervals or on sortedness.) *)
Theorem C11_normal_end_only_on_sorted_inputs :
  forall (c : cfg) (xss : list (list orec)) gs,
    truthy_records xss -> contigs_cover c xss ->
    o_overlap_iter c xss = Done gs -> inputs_sorted c xss.
Proof.
  intros c xss gs Ht Hc E.
  exact (done_implies_sorted rtruthy ccls_cmp ccls_eqb (okey c) ccls_order (okeyK c) xss gs
           Ht (fun r H => okey_K c r (Hc r H)) E).
Qed.
Print Assumptions C11_normal_end_only_on_sorted_inputs.

(* ---------------- non-vacuity ---------------- *)
Definition R_ (i : Z) (t n chr : N) (s e : Z) : orec :=
  {| rid := i; rtruthy := true; rtumor := Some [t]; rnormal := Some [n]; rchr := [99; 104; 114; chr]%N;
     rstart := s; rend := e; oref := []; oalts := [] |}.
(* contigs chr1, chr2, chr9<-"chr:" ... : use the characters '1' '2' ':' so that the
   supplied order (1, 2, :) differs from nothing lexically but '2' < ':' ; a
   second list (:, 2, 1) reverses the lexical order *)
Definition ctg (l : list N) : list str := map (fun x => [99; 104; 114; x]%N) l.
Definition cfg_rev (bb : bool) : cfg := {| by_barcodes := bb; contigs := ctg [58; 50; 49]%N |}.
Definition cfg_none (bb : bool) : cfg := {| by_barcodes := bb; contigs := [] |}.
Definition ids (o : outcome (list (list (list orec)))) : list (list (list Z)) :=
  match o with Done gs => map (map (map rid)) gs | Exc e => [[[- exn_code e]]] | OutOfFuel => [[[-99]]] end.

(* the docstring example plus touching ends and a chain that extends the running end *)
Definition demo1 : list (list orec) :=
  [[R_ 0 84 78 49 1 10; R_ 1 84 78 49 15 15; R_ 2 84 78 49 30 40; R_ 3 84 78 49 45 50];
   [R_ 4 84 78 49 5 25; R_ 5 84 78 49 40 45; R_ 6 84 78 49 60 60]].
Example demo1_groups :
  ids (o_overlap_iter (cfg_none false) demo1) = [[[0; 1]; [4]]; [[2; 3]; [5]]; [[]; [6]]].
Proof. vm_compute. reflexivity. Qed.
Example demo1_hypotheses :
  truthy_records demo1 /\ contigs_cover (cfg_none false) demo1 /\ proper_intervals demo1 /\
  inputs_sorted (cfg_none false) demo1.
Proof.
  split; [|split; [|split]].
  - intros r Hr. simpl in Hr. repeat (destruct Hr as [<-|Hr]; [reflexivity|]). destruct Hr.
  - intros r Hr. left. reflexivity.
  - intros r Hr. simpl in Hr. unfold wf_interval. repeat (destruct Hr as [<-|Hr]; [simpl; lia|]). destruct Hr.
  - assert (Hle : forall i j s1 e1 s2 e2, s1 < s2 ->
               key_le (ocls (cfg_none false)) rstart rend class_before
                      (R_ i 84 78 49 s1 e1) (R_ j 84 78 49 s2 e2)).
    { intros. left. right. split; [reflexivity|left; assumption]. }
    unfold inputs_sorted, demo1.
    apply Forall_cons; [|apply Forall_cons; [|apply Forall_nil]]; simpl;
      repeat split; try exact I; apply Hle; lia.
Qed.

(* inputs sorted by a supplied contig order that reverses the name order are
   grouped in that order, with and without barcode grouping (the configuration
   that the repaired defect got wrong) *)
Definition demo2 : list (list orec) :=
  [[R_ 0 84 78 58 5 6; R_ 1 84 78 49 1 9]; [R_ 2 84 78 50 1 1; R_ 3 84 78 49 9 9]].
Example demo2_groups_without_barcodes :
  ids (o_overlap_iter (cfg_rev false) demo2) = [[[0]; []]; [[]; [2]]; [[1]; [3]]].
Proof. vm_compute. reflexivity. Qed.
Example demo2_groups_with_barcodes :
  ids (o_overlap_iter (cfg_rev true) demo2) = [[[0]; []]; [[]; [2]]; [[1]; [3]]].
Proof. vm_compute. reflexivity. Qed.
(* the same inputs are out of order when no contig list is given: reported *)
Example demo2_reported_without_contigs :
  ids (o_overlap_iter (cfg_none false) demo2) = [[[-9]]].
Proof. vm_compute. reflexivity. Qed.
(* an interval with start > end: the real code would return empty groups for
   ever (outside the property's quantifier; the model runs out of fuel) *)
Example demo_inverted_interval :
  ids (o_overlap_iter (cfg_none false) [[R_ 0 84 78 49 5 3]]) = [[[-99]]].
Proof. vm_compute. reflexivity. Qed.

(* ======================================================================== *)
(* the out-of-order report, in full (proofs/OverlapReport.v)                 *)
From MafVerif Require Import proofs.OverlapStreamFacts proofs.OverlapReport.

(* the part of an input before its first descent *)
Definition sorted_prefix (c : cfg) : list orec -> list orec := sprefix ccls_cmp (okeyK c).

Theorem C11_sorted_prefix_ends_at_the_first_descent :
  forall (c : cfg) xs,
    exists tail, xs = sorted_prefix c xs ++ tail /\
                 sorted_input (ocls c) rstart rend class_before (sorted_prefix c xs) /\
                 (tail = [] \/
                  exists bad more last, tail = bad :: more /\ last_opt (sorted_prefix c xs) = Some last /\
                                        key_before (ocls c) rstart rend class_before bad last).
Proof. intros c. exact (sprefix_spec rtruthy ccls_cmp ccls_eqb (okey c) ccls_order (okeyK c)). Qed.
Print Assumptions C11_sorted_prefix_ends_at_the_first_descent.

(* Some input is NOT sorted (records truthy, contigs known, start <= end):
   - list(LocatableOverlapIterator(...)) ends with the report, Exception
     (never Done, never fuel exhaustion);
   - the history is: construction succeeds, then the calls of next() return the
     groups gs1, then one call raises the report;
   - gs1 is an initial segment of the EXACT grouping gs_t of the sorted
     prefixes of the inputs: every group emitted before the report is a correct,
     complete overlap-chain class of records that precede every descent, so no
     descending record is ever put into a group (the report comes no later than
     the next() that would have emitted it) and nothing is mis-grouped. *)
Theorem C11_unsorted_input_is_reported_and_nothing_is_misgrouped :
  forall (c : cfg) (xss : list (list orec)),
    truthy_records xss -> contigs_cover c xss -> proper_intervals xss -> ~ inputs_sorted c xss ->
    exists gs_t gs1 gs2 is0 is_a is',
      exact_grouping (ocls c) rstart rend class_before (map (sorted_prefix c) xss) gs_t /\
      gs_t = gs1 ++ gs2 /\
      o_init c xss = Ok is0 /\
      run_ok rtruthy ccls_cmp ccls_eqb (okey c) is0 gs1 is_a /\
      o_next_group c is_a = (is', Exc PlainException) /\
      o_overlap_iter c xss = Exc PlainException.
Proof.
  intros c xss Ht Hc Hw Hns.
  exact (unsorted_reported rtruthy ccls_cmp ccls_eqb (okey c) ccls_order (okey_no_stop c) (okeyK c) xss
           Ht (fun r H => okey_K c r (Hc r H)) Hw Hns).
Qed.
Print Assumptions C11_unsorted_input_is_reported_and_nothing_is_misgrouped.

(* non-vacuity: second input fine, first input [1,2] [8,9] [4,5]: the first
   call returns the group {[1,2],[2,3]}, the second call (which would absorb
   [8,9] and has to pull [4,5]) raises; the sorted prefixes are [1,2] [8,9] and
   [2,3], whose exact grouping is {[1,2],[2,3]}, {[8,9]} *)
Definition demo3 : list (list orec) :=
  [[R_ 0 84 78 49 1 2; R_ 1 84 78 49 8 9; R_ 2 84 78 49 4 5]; [R_ 3 84 78 49 2 3]].
Example demo3_report :
  ids (o_overlap_iter (cfg_none false) demo3) = [[[-9]]] /\
  map (map rid) (map (sorted_prefix (cfg_none false)) demo3) = [[0; 1]; [3]] /\
  ids (o_overlap_iter (cfg_none false) (map (sorted_prefix (cfg_none false)) demo3)) = [[[0]; [3]]; [[1]; []]] /\
  match o_init (cfg_none false) demo3 with
  | Ok i0 =>
    let '(i1, o1) := o_next_group (cfg_none false) i0 in
    let '(i2, o2) := o_next_group (cfg_none false) i1 in
    (match o1 with Done g => map (map rid) g | _ => [] end,
     match o2 with Exc PlainException => true | _ => false end)
  | Raise _ => ([], false)
  end = ([[0]; [3]], true).
Proof. vm_compute. repeat split. Qed.
Example demo3_not_sorted : ~ inputs_sorted (cfg_none false) demo3.
Proof.
  intros H. inversion H as [|? ? H1 _]; subst. simpl in H1.
  destruct H1 as (_ & [[Hc|(_ & [Hlt|(Heq & _)])]|(_ & Heq & _)] & _); simpl in *; try lia.
  vm_compute in Hc. discriminate.
Qed.

(* Observation on the unchanged library (outside the quantifier of C11, which is
   over intervals): a MafRecord with zero columns - what a malformed line becomes
   under Silent/Lenient - is false; the iterator takes `if rec:` for exhaustion,
   so the rest of that input (record 2 here) is silently never emitted while the
   run ends normally.  The false record is given a key that is in order. *)
Definition F_ (i : Z) : orec :=
  {| rid := i; rtruthy := false; rtumor := None; rnormal := None; rchr := [255%N];
     rstart := 0; rend := 0; oref := []; oalts := [] |}.
Example demo_false_record_ends_its_input :
  ids (o_overlap_iter (cfg_none false)
         [[R_ 0 84 78 49 1 2; F_ 1; R_ 2 84 78 49 8 9]; [R_ 3 84 78 49 20 21]])
  = [[[0]; []]; [[]; [3]]].
Proof. vm_compute. reflexivity. Qed.
