(* C07 - placeholder while the plugin is being brought up *)
From MafVerif Require Import lib.Base model.Sorter.
