(* C07 - The external sorter returns a sorted permutation for every capacity
   and order.  Property theorems only; proofs are in proofs/SorterFacts.v.

   Every theorem is about model/Sorter.v (Sorter.add / __spill / __iter__ /
   _SortedIterator / _MergingIterator of the repaired code), for EVERY item
   type A, key type K, text type D, key function, codec, capacity >= 1, spill
   policy and input list, under three hypotheses that appear in the statements:
     swo K lt                 the key order is a strict weak order (for MAF
                              keys this is property C08)
     pick_contract pick_min   sorted()/heapq return a minimal element and a
                              permutation of the rest
     codec_contract ...       decode (encode x) succeeds, re-encodes to the
                              same text and has a key equivalent to x's (for
                              MafSorterCodec this is property C04)
   Keys and values are never tested for truth in the model (as in the repaired
   code), so keys 0, '', () ... are covered by "every K". *)
From Coq Require Import Permutation Sorted.
From MafVerif Require Import lib.Base lib.SorterLib model.Sorter proofs.SorterFacts.

Section C07.
  Variables A K D : Type.
  Variable keyf : A -> res K.
  Variable lt : K -> K -> bool.
  Variable enc : A -> D.
  Variable dec : D -> res A.
  Variable pick_min : forall X : Type, (X -> X -> bool) -> list X -> option (X * list X).
  Hypothesis lt_swo : swo K lt.
  Hypothesis pick_ok : pick_contract pick_min.
  Hypothesis codec_ok : codec_contract A K D keyf lt enc dec.

  Notation adds := (adds A K D keyf lt enc pick_min).
  Notation iter := (iter A K D keyf lt dec pick_min).
  Notation keys_of := (keys_of A K keyf).

  (* every added item comes back exactly once (same text; the value is the
     decoding of that text), in non-decreasing key order; the iteration ends
     normally (None = StopIteration).  n = 0 and n a multiple of the capacity
     are instances. *)
  Theorem C07_sorted_permutation :
    forall (c : nat) (al : bool) (xs : list A) s,
      (1 <= c)%nat -> adds (new K D c al) xs = Ok s ->
      exists ys s', iter s = ((ys, None), s') /\
        Permutation (map enc ys) (map enc xs) /\
        Forall (fun y => dec (enc y) = Ok y) ys /\
        exists ks, keys_of ys ks /\ StronglySorted (le K lt) ks.
  Proof. exact (sorted_permutation A K D keyf lt enc dec pick_min lt_swo pick_ok codec_ok). Qed.

  (* the key sequence does not depend on capacity, spill policy or insertion order *)
  Theorem C07_keys_independent_of_configuration :
    forall c al c' al' (xs xs' : list A) s t ys s1 ys' t1,
      (1 <= c)%nat -> (1 <= c')%nat -> Permutation xs xs' ->
      adds (new K D c al) xs = Ok s -> adds (new K D c' al') xs' = Ok t ->
      iter s = ((ys, None), s1) -> iter t = ((ys', None), t1) ->
      exists ks ks', keys_of ys ks /\ keys_of ys' ks' /\ Forall2 (eqv K lt) ks ks'.
  Proof. exact (keys_independent A K D keyf lt enc dec pick_min lt_swo pick_ok codec_ok). Qed.

  (* iterating again gives the same key sequence (and again a sorted permutation) *)
  Theorem C07_reiteration :
    forall c al (xs : list A) s ys s1,
      (1 <= c)%nat -> adds (new K D c al) xs = Ok s -> iter s = ((ys, None), s1) ->
      exists ys2 s2, iter s1 = ((ys2, None), s2) /\
        Permutation (map enc ys2) (map enc xs) /\
        exists ks ks2, keys_of ys ks /\ keys_of ys2 ks2 /\ Forall2 (eqv K lt) ks ks2 /\
                       StronglySorted (le K lt) ks2.
  Proof. exact (reiteration A K D keyf lt enc dec pick_min lt_swo pick_ok codec_ok). Qed.

  (* histories: items added after an iteration are sorted in with the earlier ones *)
  Theorem C07_add_after_iteration :
    forall c al (xs : list A) s ys s1 more s2,
      (1 <= c)%nat -> adds (new K D c al) xs = Ok s -> iter s = ((ys, None), s1) ->
      adds s1 more = Ok s2 ->
      exists ys2 s3, iter s2 = ((ys2, None), s3) /\
        Permutation (map enc ys2) (map enc (xs ++ more)) /\
        exists ks2, keys_of ys2 ks2 /\ StronglySorted (le K lt) ks2.
  Proof. exact (add_after_iteration A K D keyf lt enc dec pick_min lt_swo pick_ok codec_ok). Qed.
End C07.
Print Assumptions C07_sorted_permutation.
Print Assumptions C07_keys_independent_of_configuration.
Print Assumptions C07_reiteration.
Print Assumptions C07_add_after_iteration.

(* the oracle instance the extracted model runs with satisfies the contract,
   so the theorems apply to the runs compared with /repo *)
Theorem C07_extracted_oracle_meets_contract : pick_contract leftmost_min.
Proof. exact leftmost_min_contract. Qed.
Print Assumptions C07_extracted_oracle_meets_contract.

(* ---------- non-vacuity: integer keys with zero and negative keys, ties,
   three chunks the last of them partial; and the corner cases ---------- *)
Definition kf (x : Z * Z) : res Z := Ok (fst x - 1).          (* key = x - 1, as in the corpus *)
Definition ident (x : Z * Z) : Z * Z := x.
Definition deco (x : Z * Z) : res (Z * Z) := Ok x.

Lemma demo_codec : codec_contract (Z * Z) Z (Z * Z) kf Z.ltb ident deco.
Proof.
  intros a k Hk. exists a, k. repeat split; try assumption; apply Z.ltb_irrefl.
Qed.

Definition demo_xs : list (Z * Z) := [(3, 0); (1, 1); (2, 2); (1, 3); (4, 4); (5, 5); (0, 6)].
Definition demo_run (c : nat) (al : bool) (xs : list (Z * Z)) :=
  match adds (Z * Z) Z (Z * Z) kf Z.ltb ident leftmost_min (new Z (Z * Z) c al) xs with
  | Ok s => Some (fst (iter (Z * Z) Z (Z * Z) kf Z.ltb deco leftmost_min s))
  | Raise _ => None
  end.

(* Sorter(10, key=x-1) over [3,1,2,1,4,5,0]: the pinned tree returned [1] *)
Example demo_cap10 :
  demo_run 10 true demo_xs = Some ([(0, 6); (1, 1); (1, 3); (2, 2); (3, 0); (4, 4); (5, 5)], None).
Proof. vm_compute. reflexivity. Qed.
Example demo_cap3_three_chunks :
  demo_run 3 true demo_xs = Some ([(0, 6); (1, 1); (1, 3); (2, 2); (3, 0); (4, 4); (5, 5)], None).
Proof. vm_compute. reflexivity. Qed.
Example demo_in_memory :
  demo_run 8 false demo_xs = Some ([(0, 6); (1, 1); (1, 3); (2, 2); (3, 0); (4, 4); (5, 5)], None).
Proof. vm_compute. reflexivity. Qed.
Example demo_exact_multiple :
  demo_run 2 false [(3, 0); (1, 1); (2, 2); (1, 3)] = Some ([(1, 1); (1, 3); (2, 2); (3, 0)], None).
Proof. vm_compute. reflexivity. Qed.
Example demo_empty : demo_run 4 true [] = Some ([], None).
Proof. vm_compute. reflexivity. Qed.

(* the general theorem instantiated: hypotheses are satisfiable together *)
Example demo_instance :
  forall c al xs s, (1 <= c)%nat ->
    adds (Z * Z) Z (Z * Z) kf Z.ltb ident leftmost_min (new Z (Z * Z) c al) xs = Ok s ->
    exists ys s', iter (Z * Z) Z (Z * Z) kf Z.ltb deco leftmost_min s = ((ys, None), s') /\
      Permutation (map ident ys) (map ident xs) /\
      Forall (fun y => deco (ident y) = Ok y) ys /\
      exists ks, keys_of (Z * Z) Z kf ys ks /\ StronglySorted (le Z Z.ltb) ks.
Proof.
  exact (C07_sorted_permutation (Z * Z) Z (Z * Z) kf Z.ltb ident deco leftmost_min
           Zltb_swo leftmost_min_contract demo_codec).
Qed.
