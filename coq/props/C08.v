(* C08 - Sort keys form the documented total preorder; never fail on
   well-formed records.  Property theorems only; proofs are in
   proofs/SortOrderFacts.v.  Model: model/SortOrder.v; documented order:
   spec/SpecOrder.v. *)
From MafVerif Require Import lib.Base lib.Str lib.SortOrderLib model.SortOrder spec.SpecOrder
  proofs.SortOrderFacts.

(* The comparison the keys implement (__cmp__) is a total preorder on the keys
   one key function produces: always defined, reflexive, total (results are
   opposite and in {-1,0,1}), transitive, antisymmetric up to cmp = 0. *)
Theorem C08_total_preorder :
  forall kf a b c,
    wf_skey kf a = true -> wf_skey kf b = true -> wf_skey kf c = true ->
    exists dab dba dbc dac,
      key_cmp a b = Ok dab /\ key_cmp b a = Ok dba /\ key_cmp b c = Ok dbc /\ key_cmp a c = Ok dac /\
      key_cmp a a = Ok 0 /\
      dba = - dab /\ (-1 <= dab <= 1) /\
      (dab <= 0 -> dbc <= 0 -> dac <= 0) /\
      (dab <= 0 -> dba <= 0 -> dab = 0).
Proof. exact key_cmp_preorder. Qed.
Print Assumptions C08_total_preorder.

(* <, <=, >, >=, ==, != (functools.total_ordering derivations and the default
   !=) agree with __cmp__, for all keys, and raise what it raises. *)
Theorem C08_operators_agree :
  forall a b d, key_cmp a b = Ok d ->
    key_lt a b = Ok (d <? 0) /\ key_le a b = Ok (d <=? 0) /\ key_gt a b = Ok (d >? 0) /\
    key_ge a b = Ok (d >=? 0) /\ key_eq a b = Ok (d =? 0) /\ key_ne a b = Ok (negb (d =? 0)).
Proof. exact operators_from_cmp. Qed.
Print Assumptions C08_operators_agree.

Theorem C08_operators_raise_only_with_cmp :
  forall a b e, key_cmp a b = Raise e ->
    key_lt a b = Raise e /\ key_le a b = Raise e /\ key_gt a b = Raise e /\
    key_ge a b = Raise e /\ key_eq a b = Raise e /\ key_ne a b = Raise e.
Proof. exact operators_raise. Qed.
Print Assumptions C08_operators_raise_only_with_cmp.

(* Keys built by one sort order from two objects compare as the documented
   order says: barcodes (barcode order only), chromosome by contig rank or by
   name, numeric start, numeric end, missing last.  Objects: MafRecords typed by
   a scheme or untyped, plain Locatables (coordinate order only); barcodes are
   text or missing. *)
Theorem C08_order_is_the_documented_one :
  forall kf ra rb ka kb,
    keyable kf ra -> keyable kf rb ->
    (kf_bar kf = true -> barcodes_text ra /\ barcodes_text rb) ->
    build_key kf ra = Ok ka -> build_key kf rb = Ok kb ->
    key_cmp ka kb = Ok (zc (spec_cmp (kf_bar kf) (contig_names kf) (doc ra) (doc rb))).
Proof. exact key_cmp_spec. Qed.
Print Assumptions C08_order_is_the_documented_one.

(* Building a key fails exactly when a contig list is supplied and the
   chromosome's name is not in it, and then with ValueError; otherwise it
   yields a well-formed key. *)
Theorem C08_key_construction :
  forall kf r, keyable kf r -> (kf_bar kf = true -> barcodes_text r) ->
    (exists k, build_key kf r = Ok k /\ wf_skey kf k = true /\ listed (contig_names kf) (doc r)) \/
    (build_key kf r = Raise ValueError /\ unlisted (contig_names kf) r).
Proof. exact build_key_cases. Qed.
Print Assumptions C08_key_construction.

Theorem C08_unlisted_chromosome_is_an_error :
  forall kf r, keyable kf r -> (kf_bar kf = true -> barcodes_text r) ->
    (build_key kf r = Raise ValueError <-> unlisted (contig_names kf) r).
Proof. exact build_key_unlisted_iff. Qed.
Print Assumptions C08_unlisted_chromosome_is_an_error.

(* Building and comparing never fails for well-formed records: both keys are
   built, __cmp__ and the six operators return, with the documented values. *)
Theorem C08_never_fails_on_well_formed_records :
  forall kf ra rb,
    keyable kf ra -> keyable kf rb ->
    (kf_bar kf = true -> barcodes_text ra /\ barcodes_text rb) ->
    listed (contig_names kf) (doc ra) -> listed (contig_names kf) (doc rb) ->
    exists ka kb,
      build_key kf ra = Ok ka /\ build_key kf rb = Ok kb /\
      let d := zc (spec_cmp (kf_bar kf) (contig_names kf) (doc ra) (doc rb)) in
      key_cmp ka kb = Ok d /\
      key_lt ka kb = Ok (d <? 0) /\ key_le ka kb = Ok (d <=? 0) /\ key_gt ka kb = Ok (d >? 0) /\
      key_ge ka kb = Ok (d >=? 0) /\ key_eq ka kb = Ok (d =? 0) /\ key_ne ka kb = Ok (negb (d =? 0)).
Proof. exact never_fails. Qed.
Print Assumptions C08_never_fails_on_well_formed_records.

(* `<` on keys is a strict weak order: key_ltb is total on all keys, is what
   the model's __lt__ returns on the keys of one key function, and is
   irreflexive, transitive, with transitive incomparability.  (This is the
   hypothesis of the sorter's theorem C07.) *)
Theorem C08_lt_strict_weak_order :
  strict_weak_order key_ltb /\
  forall kf a b, wf_skey kf a = true -> wf_skey kf b = true -> key_lt a b = Ok (key_ltb a b).
Proof. exact (conj key_ltb_strict_weak_order key_lt_ltb). Qed.
Print Assumptions C08_lt_strict_weak_order.

(* Values typed by a scheme (integers) and the same values as text give the
   same key. *)
Theorem C08_typed_and_untyped_agree :
  forall z zs ze contigs,
    coord_key (Plain (PInt z) (PInt zs) (PInt ze)) contigs
    = coord_key (Plain (PStr (render_int z)) (PStr (render_int zs)) (PStr (render_int ze))) contigs.
Proof. exact typed_untyped_same_key. Qed.
Print Assumptions C08_typed_and_untyped_agree.

(* str(key) (the text form of a key): a coordinate key always prints its three
   components tab-separated (a missing one as "None"); a barcode key prints
   only when both barcodes are text, otherwise str() raises TypeError: the
   library joins the raw barcodes.  The library itself never prints keys (the
   out-of-order message prints the records). *)
Theorem C08_key_text :
  forall k,
    match k with
    | KCoord c => key_str k = Ok (ckey_str c)
    | KBar t n c =>
        (exists a b, t = PStr a /\ n = PStr b /\ key_str k = Ok (join [TAB] [a; b; ckey_str c])) \/
        ((forall a, t <> PStr a) \/ (forall b, n <> PStr b)) /\ key_str k = Raise TypeError
    end.
Proof. exact key_str_cases. Qed.
Print Assumptions C08_key_text.

(* ---------- non-vacuity ---------- *)
Definition t (s : list N) : str := s.
Definition chr1 : str := [99;104;114;49]%N.
Definition chr2 : str := [99;104;114;50]%N.
Definition chr10 : str := [99;104;114;49;48]%N.
Definition T1 : str := [84;49]%N.
Definition mk (tumor : pv) (c s e : pv) : locatable :=
  Maf [(n_Tumor, tumor); (n_Chromosome, c); (n_Start, s); (n_End, e)].
Definition kf_kary : keyfn := {| kf_bar := true; kf_contigs := [PStr chr1; PStr chr2; PStr chr10] |}.
Definition kf_name : keyfn := {| kf_bar := false; kf_contigs := [] |}.

(* karyotypic contigs, untyped text positions 9 < 10, chr2 before chr10 *)
Example demo_kary :
  let a := mk (PStr T1) (PStr chr2) (PStr [57]%N) (PStr [57]%N) in           (* chr2:9 *)
  let b := mk (PStr T1) (PStr chr2) (PStr [49;48]%N) (PStr [49;48]%N) in     (* chr2:10 *)
  let c := mk (PStr T1) (PStr chr10) (PInt 1) (PInt 1) in                    (* chr10:1 *)
  match build_key kf_kary a, build_key kf_kary b, build_key kf_kary c with
  | Ok ka, Ok kb, Ok kc =>
      (key_cmp ka kb, key_cmp kb kc, key_cmp ka kc, key_lt kc ka, key_le ka ka)
      = (Ok (-1), Ok (-1), Ok (-1), Ok false, Ok true)
      /\ wf_skey kf_kary ka = true
  | _, _, _ => False
  end.
Proof. vm_compute. split; reflexivity. Qed.

(* by name: a typed integer chromosome 1 against 'X' (TypeError on the pinned
   tree), missing start last, plain Locatable against MafRecord *)
Example demo_by_name :
  let a := Maf [(n_Chromosome, PInt 1); (n_Start, PInt 5); (n_End, PInt 5)] in
  let b := Maf [(n_Chromosome, PStr [88]%N); (n_End, PInt 5)] in
  let c := Plain (PStr [88]%N) (PInt 7) PNone in
  match build_key kf_name a, build_key kf_name b, build_key kf_name c with
  | Ok ka, Ok kb, Ok kc => (key_cmp ka kb, key_cmp kb kc, key_gt kb kc) = (Ok (-1), Ok 1, Ok true)
  | _, _, _ => False
  end.
Proof. vm_compute. reflexivity. Qed.

(* an unlisted chromosome is an error; hypotheses of the theorems are met *)
Example demo_unlisted :
  build_key kf_kary (mk (PStr T1) (PStr [99;104;114;88]%N) (PInt 1) (PInt 1)) = Raise ValueError.
Proof. vm_compute. reflexivity. Qed.
Example demo_hyps :
  let a := mk (PStr T1) (PStr chr2) (PStr [57]%N) (PStr [57]%N) in
  keyable kf_kary a /\ barcodes_text a /\ listed (contig_names kf_kary) (doc a).
Proof.
  split; [intros _; eexists; reflexivity|]. split; [vm_compute; tauto|].
  right. right. exists 1. vm_compute. reflexivity.
Qed.

(* str() of keys: "chr2\t9\t9" with the barcode in front; a missing barcode makes str() raise *)
Example demo_key_text :
  match build_key kf_kary (mk (PStr T1) (PStr chr2) (PInt 9) PNone), build_key kf_kary (mk PNone (PStr chr2) (PInt 9) PNone),
        build_key kf_name (Plain (PInt 0) PNone (PStr [55]%N)) with
  | Ok a, Ok b, Ok c =>
      key_str a = Raise TypeError /\ key_str b = Raise TypeError /\
      key_str c = Ok [48; 9; 78;111;110;101; 9; 55]%N
  | _, _, _ => False
  end.
Proof. vm_compute. repeat split; reflexivity. Qed.
