(* C06 - A Strict writer only ever emits lines that a Strict reader accepts.
   Property theorems only; proofs in proofs/WriterFacts.v (+ ParseFacts, LineFacts). *)
From Coq Require Import String.
From MafVerif Require Import lib.Base lib.Str gen.GenClasses model.Classes model.Columns model.Layouts
     model.RecordOps model.ColRecord proofs.LayoutFacts proofs.ColumnFacts proofs.ParseFacts proofs.MaskFacts
     proofs.LineFacts proofs.WriterFacts.
Open Scope string_scope.

Lemma layouts_nonempty : forallb nonempty_layout layouts_ok = true.
Proof. vm_compute. reflexivity. Qed.

(* One record offered to a Strict writer under any of the layouts built from
   the regenerated definitions: if the writer's validation lets it through and
   a line is emitted, a Strict reader under the same layout accepts that line
   without any validation error.  Premises: (1) `renders_back` - for each
   column class of the layout, the rendering of any value that validates is
   itself a valid field text (the per-class fact C04 is about); (2) every
   column object has exactly its scheme class.  Without (2) the statement is
   false on /repo: see C06_subclass_substitution_refuted and the known finding. *)
Theorem C06_emitted_line_is_accepted_by_strict_reader :
  forall (Or : oracles) l (r : crec) line ln,
    In l layouts_ok ->
    renders_back class_table Or (l_cols l) ->
    (forall j n sc c, nth_error (l_cols l) j = Some (n, sc) -> nth_error (rlist r) j = Some (Some c) ->
                      v_cls (cval c) = sc) ->
    writer_emits (l_cols l) r = Some line ->
    exists rec', from_line class_table Or Strict None (Some (l_cols l)) ln line = Ok (rec', []).
Proof.
  intros Or. exact (emitted_line_is_accepted_in class_table layouts_ok Or all_layouts_ok layouts_nonempty).
Qed.
Print Assumptions C06_emitted_line_is_accepted_by_strict_reader.

(* the shape of every record the Strict writer lets through: right count, no
   gap, column j is named as the layout's j-th column, is an instance of its
   class, holds a value that validates and whose text has no TAB/CR/LF *)
Theorem C06_only_conforming_records_pass :
  forall (s : scheme) (r : crec) line,
    NoDup (map fst s) -> forallb (fun c => col_ok class_table (snd c)) s = true -> s <> [] ->
    writer_emits s r = Some line ->
    length (rlist r) = length s /\
    forall j n sc, nth_error s j = Some (n, sc) ->
      exists c, nth_error (rlist r) j = Some (Some c) /\ ckey c = n /\
                isinstance class_table (v_cls (cval c)) sc = true /\
                cls_value_invalid (resolve_or_plain class_table (v_cls (cval c))) (v_val (cval c)) = false /\
                cls_text_has_sep (resolve_or_plain class_table (v_cls (cval c))) (v_val (cval c)) = false.
Proof. intros s r line Hnd Hcols Hne. exact (emitted_record_shape class_table s Hnd Hcols Hne r line). Qed.
Print Assumptions C06_only_conforming_records_pass.

(* a record that does not conform is refused with the format exception (and,
   the writer being `validate; then write`, contributes no bytes) *)
Theorem C06_refusal_is_the_format_exception :
  forall sch ln old (r : crec) e,
    rec_validate class_table Strict sch ln old r = Raise e -> exists t l, e = MafFormat t l.
Proof. exact (strict_validate_raises_format class_table). Qed.
Print Assumptions C06_refusal_is_the_format_exception.

(* the recorded finding: a nullable subclass standing in for its non-nullable
   scheme class passes the writer and is rejected by the reader *)
Definition uuid_scheme : scheme := [(s2l "u", CSrc "UUIDColumn")].
Definition sub_record : crec :=
  let c := {| ckey := s2l "u"; cidx := Some 0; cval := {| v_cls := CSrc "NullableUUIDColumn"; v_val := VNone |} |} in
  {| rdict := [(s2l "u", c)]; rlist := [Some c] |}.
Definition no_oracle : oracles := {| fval := fun _ => None; uval := fun _ => None |}.
Example C06_subclass_substitution_refuted :
  writer_emits uuid_scheme sub_record = Some [] /\
  from_line class_table no_oracle Strict None (Some uuid_scheme) None [] =
    Raise (MafFormat (tpe_index "RECORD_INVALID_COLUMN_VALUE") None).
Proof. vm_compute. split; reflexivity. Qed.

(* non-vacuity: a conforming record is emitted *)
Example C06_conforming_record_emitted :
  writer_emits [(s2l "a", CSrc "OneBasedIntegerColumn"); (s2l "b", CSrc "NullableStringColumn")]
    (let c0 := {| ckey := s2l "a"; cidx := Some 0; cval := {| v_cls := CSrc "OneBasedIntegerColumn"; v_val := VInt 7 |} |} in
     let c1 := {| ckey := s2l "b"; cidx := Some 1; cval := {| v_cls := CSrc "NullableStringColumn"; v_val := VNone |} |} in
     {| rdict := [(s2l "a", c0); (s2l "b", c1)]; rlist := [Some c0; Some c1] |})
  = Some (s2l "7" ++ [TAB])%list.
Proof. vm_compute. reflexivity. Qed.

(* ---------- closed form: the `renders_back` premise discharged (proofs/RenderBack.v) ---------- *)
From MafVerif Require Import proofs.RenderFacts proofs.RenderBack.

(* For every column class of every built layout (finite sweep over the
   regenerated tables, per-class lemmas for all values): a well-formed value
   that validates and whose text has no TAB/CR/LF renders to a text the same
   class accepts.  `wf_val` says the value is one python can hold: a float is
   denoted by its repr, a UUID by its canonical text, an enum value is a member
   (index in range), recursively in lists/tuples.  It cannot be dropped: the
   model's validate only tests the constructor (isinstance), so VFloat "x"
   validates and renders "x", which no float() accepts - renders_back_needs_wf. *)
Theorem C06_renders_back_for_wellformed_values :
  forall (Or : oracles) l, In l layouts_ok ->
  forall j n sc r v, nth_error (l_cols l) j = Some (n, sc) -> resolve class_table sc = Some r ->
    cls_value_invalid r v = false -> cls_text_has_sep r v = false -> wf_val Or v ->
    exists t v', col_str r v = Ok t /\ field_outcome Or r t = Valid v'.
Proof. exact built_layout_renders_back. Qed.
Print Assumptions C06_renders_back_for_wellformed_values.

(* C06 without the renders_back premise.  Remaining premises: the values are
   well-formed python values, and every column object has exactly its scheme
   class (without it: C06_subclass_substitution_refuted). *)
Theorem C06_emitted_line_is_accepted_by_strict_reader_closed :
  forall (Or : oracles) l (r : crec) line ln,
    In l layouts_ok ->
    (forall j c, nth_error (rlist r) j = Some (Some c) -> wf_val Or (v_val (cval c))) ->
    (forall j n sc c, nth_error (l_cols l) j = Some (n, sc) -> nth_error (rlist r) j = Some (Some c) ->
                      v_cls (cval c) = sc) ->
    writer_emits (l_cols l) r = Some line ->
    exists rec', from_line class_table Or Strict None (Some (l_cols l)) ln line = Ok (rec', []).
Proof.
  intros Or.
  exact (emitted_line_is_accepted_closed class_table Or layouts_ok all_layouts_ok layouts_nonempty all_layouts_render_back).
Qed.
Print Assumptions C06_emitted_line_is_accepted_by_strict_reader_closed.

Example C06_unrestricted_renders_back_is_false_in_the_model :
  let r := get_r (resolve class_table (CSrc "FloatColumn")) in
  let O0' := {| fval := fun _ => None; uval := fun _ => None |} in
  cls_value_invalid r (VFloat (s2l "x")) = false /\ cls_text_has_sep r (VFloat (s2l "x")) = false /\
  col_str r (VFloat (s2l "x")) = Ok (s2l "x") /\ field_outcome O0' r (s2l "x") = Invalid.
Proof. exact renders_back_needs_wf. Qed.
