(* C19 - Reading, unsorted writing and overlap iteration are incremental; a
   sorter of capacity m keeps fewer than m records in memory.
   Property theorems only (statements about the consumption-discipline models
   of model/OverlapStream.v and the `consumed` counters of model/Overlap.v);
   proofs are in proofs/OverlapStreamFacts.v. *)
From Coq Require Import Permutation.
From MafVerif Require Import lib.Base lib.Str model.Overlap model.OverlapStream proofs.OverlapStreamFacts.

(* ---- reader: for every file, every header length, every parsing functions.
   After construction the reader has pulled the header lines, the column line
   and one look-ahead line (fewer only if the file ends earlier). *)
Theorem C19_reader_constructor_lookahead :
  forall (H Sch : Type) (parse_header : list str -> res H)
         (check_columns : H -> option (list str) -> res Sch) lines s r,
    reader_init parse_header check_columns lines = (s, Ok r) ->
    s_consumed (r_src r) = Nat.min (length lines) (hcount lines + 2).
Proof.
  intros H Sch ph cc lines s r E.
  exact (proj1 (proj2 (proj2 (reader_init_pulled ph cc lines s r E)))).
Qed.
Print Assumptions C19_reader_constructor_lookahead.

(* a constructor that fails has not pulled more than that either *)
Theorem C19_reader_failed_constructor_bound :
  forall (H Sch : Type) (parse_header : list str -> res H)
         (check_columns : H -> option (list str) -> res Sch) lines s o,
    reader_init parse_header check_columns lines = (s, o) ->
    (s_consumed s <= hcount lines + 2)%nat.
Proof. intros H Sch ph cc lines s o E. exact (reader_init_bound ph cc lines s o E). Qed.
Print Assumptions C19_reader_failed_constructor_bound.

(* the j-th record returned (0-based) is parsed from physical line
   at = hcount+2+j; at the moment it is returned exactly min(len, at+1) lines
   have been pulled: never more than one line beyond the record *)
Theorem C19_reader_one_line_beyond_the_record :
  forall (H Sch X : Type) (parse_header : list str -> res H)
         (check_columns : H -> option (list str) -> res Sch)
         (parse_record : Sch -> str -> Z -> res X) lines s r k r' out j x c,
    reader_init parse_header check_columns lines = (s, Ok r) ->
    reader_take parse_record k r = (r', out) -> nth_error out j = Some (x, c) ->
    let at_ := (hcount lines + 2 + j)%nat in
    (at_ <= length lines)%nat /\ c = Nat.min (length lines) (S at_) /\ (c <= at_ + 1)%nat /\
    exists raw, nth_error lines (at_ - 1) = Some raw /\
                parse_record (r_scheme r) (rstrip_crlf raw) (Z.of_nat at_) = Ok x.
Proof.
  intros H Sch X ph cc pr lines s r k r' out j x c.
  exact (reader_lookahead ph cc pr lines s r k r' out j x c).
Qed.
Print Assumptions C19_reader_one_line_beyond_the_record.

(* a __next__ that raises (parsing under Strict) pulls nothing *)
Theorem C19_reader_failed_next_pulls_nothing :
  forall (Sch X : Type) (parse_record : Sch -> str -> Z -> res X) lines r r' e,
    RInv lines r -> reader_next parse_record r = (r', Raise e) -> r' = r.
Proof. intros Sch X pr lines r r' e HI E. exact (@reader_next_spec unit Sch X (fun _ => Ok tt) pr lines r r' (Raise e) HI E). Qed.
Print Assumptions C19_reader_failed_next_pulls_nothing.

(* ---- unsorted writer: when the write call returns normally and no sorter is
   installed, the handle has received the record's line as the last write
   (preceded, for the first record only, by the column line) *)
Theorem C19_unsorted_write_is_emitted_on_return :
  forall (Rec : Type) (column_line render : Rec -> str) (validate : Rec -> res unit)
         (wants_sorter : res bool) w r w',
    writer_iadd column_line render validate wants_sorter w r = (w', Ok tt) ->
    w_sorter w' = None ->
    exists pre, col_prefix column_line w r pre /\ w_out w' = w_out w ++ pre ++ [render r ++ [LF]].
Proof.
  intros Rec cl rd vl ws w r w'.
  exact (iadd_unsorted_emits cl rd vl ws w r w').
Qed.
Print Assumptions C19_unsorted_write_is_emitted_on_return.

Theorem C19_writer_output_only_grows :
  forall (Rec : Type) (column_line render : Rec -> str) (validate : Rec -> res unit)
         (wants_sorter : res bool) w r w' o,
    writer_iadd column_line render validate wants_sorter w r = (w', o) ->
    exists more, w_out w' = w_out w ++ more.
Proof. intros Rec cl rd vl ws w r w' o. exact (iadd_output_grows cl rd vl ws w r w' o). Qed.
Print Assumptions C19_writer_output_only_grows.

(* ---- sorter: after any sequence of adds to a sorter of capacity m >= 1,
   fewer than m entries are in memory, every spill file holds exactly m, and
   spilled + in-memory entries are exactly the entries added: all but fewer
   than m of the records added so far have been spilled.  `sortf` is the host
   function sorted(); its contract is the hypothesis. *)
Theorem C19_sorter_spills_all_but_fewer_than_capacity :
  forall (X E : Type) (entry_of : X -> res E) (sortf : list E -> list E),
    (forall l, Permutation (sortf l) l) ->
    forall m xs, (1 <= m)%nat ->
    let s := sorter_adds entry_of sortf (sorter_new m) xs in
    (length (stash s) < m)%nat /\
    Forall (fun c => length c = m) (chunks s) /\
    Permutation (concat (chunks s) ++ stash s) (entries entry_of xs) /\
    (length (entries entry_of xs) - length (concat (chunks s)) < m)%nat.
Proof. intros X E eo sf Hs m xs Hm. exact (sorter_adds_spec eo sf Hs m xs Hm). Qed.
Print Assumptions C19_sorter_spills_all_but_fewer_than_capacity.

(* ---- overlap iteration (both grouping modes, any contig list, any inputs,
   sorted or not): at every point between calls of a history without a raised
   error, input k has been pulled exactly (records of k emitted so far) + (1 if
   a look-ahead record is held) times *)
Lemma okey_no_stop c r : okey c r <> Raise StopIteration.
Proof.
  unfold okey. destruct (contigs c); [discriminate|].
  destruct (index_of (rchr r) (s :: l)); discriminate.
Qed.

Theorem C19_overlap_at_most_one_record_beyond_emitted_groups :
  forall (c : cfg) xss ins0 gs ins k i,
    o_init c xss = Ok ins0 ->
    run_ok rtruthy ccls_cmp ccls_eqb (okey c) ins0 gs ins ->
    nth_error ins k = Some i ->
    consumed i = (emitted k gs + peeked i)%nat /\ (consumed i <= emitted k gs + 1)%nat.
Proof.
  intros c xss ins0 gs ins k i.
  exact (overlap_consumption rtruthy ccls_cmp ccls_eqb (okey c) (okey_no_stop c) xss ins0 gs ins k i).
Qed.
Print Assumptions C19_overlap_at_most_one_record_beyond_emitted_groups.

(* the same bound inside a call, for the slot being filled *)
Theorem C19_overlap_bound_within_a_call :
  forall (c : cfg) bases cells mk added cells' mk' added',
    Forall2 (CAcc (C:=ccls)) bases cells ->
    sweep rtruthy ccls_cmp ccls_eqb (okey c) mk added cells = (cells', mk', added', None) ->
    Forall2 (fun b cl => (consumed (c_in cl) <= b + length (c_slot cl) + 1)%nat) bases cells'.
Proof.
  intros c bases cells mk added cells' mk' added'.
  exact (overlap_consumption_within rtruthy ccls_cmp ccls_eqb (okey c) (okey_no_stop c)
           bases cells mk added cells' mk' added').
Qed.
Print Assumptions C19_overlap_bound_within_a_call.

(* ---------------- non-vacuity ---------------- *)
Definition s_ (l : list N) : str := l.
(* "#a" / "A\tB" / "1\t2" / "3\t4" / "5\t6" *)
Definition demo_lines : list str :=
  [[35;97]; [65;9;66;10]; [49;9;50;13;10]; [51;9;52]; [53;9;54]]%N.
Definition demo_init := @reader_init unit unit (fun _ => Ok tt) (fun _ _ => Ok tt) demo_lines.
Example demo_reader_pulls :
  match demo_init with
  | (s, Ok r) =>
    (s_consumed s,
     map snd (snd (reader_take (fun (_ : unit) l (_ : Z) => Ok l) 5 r)))
  | _ => (0%nat, [])
  end = (3%nat, [4; 5; 5]%nat).
Proof. vm_compute. reflexivity. Qed.

Example demo_sorter :
  let s := sorter_adds (fun x : Z => Ok x) (fun l => l) (sorter_new 3) [5; 1; 4; 2; 8; 7; 3] in
  (stash s, chunks s) = ([3], [[5; 1; 4]; [2; 8; 7]]).
Proof. vm_compute. reflexivity. Qed.

Example demo_writer :
  let iadd := writer_iadd (fun _ : Z => [65;9;66]%N) (fun z => [Z.to_N z]) (fun _ => Ok tt) (Ok false) in
  let w0 := {| w_out := []; w_scheme := false; w_sorter := None |} in
  let w1 := fst (iadd w0 49) in
  let w2 := fst (iadd w1 50) in
  (w_out w1, w_out w2) =
  ([[65;9;66;10]; [49;10]]%N, [[65;9;66;10]; [49;10]; [50;10]]%N).
Proof. vm_compute. reflexivity. Qed.

(* overlap: two inputs, the docstring example; consumption after each group *)
Definition iv (i s e : Z) : orec :=
  {| rid := i; rtruthy := true; rtumor := Some []; rnormal := Some []; rchr := [99%N]; rstart := s; rend := e;
     oref := []; oalts := [] |}.
Definition demo_cfg : cfg := {| by_barcodes := false; contigs := [] |}.
Definition demo_inputs := [[iv 0 1 10; iv 1 15 15; iv 2 30 40]; [iv 3 5 25; iv 4 50 60]].
Example demo_overlap_consumption :
  match o_init demo_cfg demo_inputs with
  | Ok i0 =>
    let '(i1, o1) := o_next_group demo_cfg i0 in
    let '(i2, o2) := o_next_group demo_cfg i1 in
    (map consumed i0, map consumed i1, map consumed i2,
     match o1 with Done g => map (map rid) g | _ => [] end)
  | Raise _ => ([], [], [], [])
  end = ([1; 1]%nat, [3; 2]%nat, [3; 2]%nat, [[0; 1]; [3]]).
Proof. vm_compute. reflexivity. Qed.

(* Scope of the overlap clause: the theorems above are about
   LocatableOverlapIterator (next_group).  They do NOT extend to
   LocatableByAlleleOverlapIterator as written: one call of its __next__ pulls
   and discards every positional group that has nothing from the first input.
   Here the first call returns the group {0 | 4} having pulled all five records
   of the second input, four more than it has emitted from it. *)
Example demo_allele_subclass_pulls_whole_groups :
  match o_init demo_cfg [[iv 0 100 101]; [iv 1 1 1; iv 2 5 5; iv 3 9 9; iv 4 100 100; iv 5 200 200]] with
  | Ok i0 =>
    let '(st, o) := o_allele_next demo_cfg Equality {| a_ins := i0; a_items := None; a_others := [] |} in
    (map consumed i0, map consumed (a_ins st),
     match o with Done g => map (map rid) g | _ => [] end)
  | Raise _ => ([], [], [])
  end = ([1; 1]%nat, [1; 5]%nat, [[0]; [4]]).
Proof. vm_compute. reflexivity. Qed.
