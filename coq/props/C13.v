(* C13 - Parsing header lines keeps every well-formed pragma (key, value,
   position) and reports every malformed or duplicate line with its category
   and 1-based line number, keeping the first of duplicates; printing a parsed
   header and parsing it again is the identity; the accessors and the
   header-level checks reflect exactly the kept pragmas; a header derived from
   a reader is independent of the reader's own header.
   Property theorems only; proofs are in proofs/HeaderSpec.v,
   proofs/HeaderRoundTrip.v, proofs/HeaderStore.v. *)
From Coq Require Import Sorted.
From MafVerif Require Import lib.Base lib.Str model.Validation model.Header spec.SpecHeader
  proofs.HeaderSpec proofs.HeaderRoundTrip proofs.HeaderStore.
Import Store.

(* ---------- one line ---------- *)
(* MafHeaderRecord.from_line agrees with the classification of the spec: the
   same error category for a malformed line, and for a well-formed one a record
   with that key holding the text / the contig names / the named sort order *)
Theorem C13_line_classification :
  forall (line : str) (ln : option Z),
    (forall c, classify line = Malformed c ->
               hrec_from_line line ln = inr (mkerr (diag_code (DMalformed c)) ln)) /\
    (forall k v, classify line = WellFormed k v ->
       exists r, hrec_from_line line ln = inl r /\ hkey r = k /\
         (k = K_CONTIGS -> hval r = HContigs (split COMMA v)) /\
         (k = K_SORT -> exists o, so_name o = v /\ hval r = HOrder o []) /\
         (k <> K_CONTIGS -> k <> K_SORT -> hval r = HText v)).
Proof. exact hrec_from_line_classify. Qed.
Print Assumptions C13_line_classification.

(* what "well-formed" means, declaratively *)
Theorem C13_wellformed_iff :
  forall l k v,
    classify l = WellFormed k v <->
    exists text, l = HASH :: k ++ SP :: text /\ ~ In SP k /\ k <> [] /\ v = rstrip_ws text /\ v <> [] /\
                 (k = SP_SORT -> In v SP_ORDER_NAMES).
Proof. exact classify_wellformed_iff. Qed.
Print Assumptions C13_wellformed_iff.

(* ---------- the loop, from any state ---------- *)
Theorem C13_loop_is_spec :
  forall n lines (recs : list (str * hrec)) errs,
    parse_header_lines n lines recs errs =
    (recs ++ map to_rec (fst (expected n (map fst recs) lines)),
     errs ++ map to_err (snd (expected n (map fst recs) lines))).
Proof. exact parse_header_lines_spec. Qed.
Print Assumptions C13_loop_is_spec.

(* ---------- from_lines ---------- *)
(* silent parsing never raises, logs nothing, and returns exactly the expected
   header: the kept pragmas in order, each as a record of its own key holding
   what `interpret` says, and the diagnostics (category code, 1-based number)
   followed by the header-level checks *)
Theorem C13_from_lines_is_spec :
  forall (C : Type) (registry : list (scheme C)) lines lg,
    let K := fst (expected_header lines) in
    let recs := map (final_rec K) K in
    exists sch, h_scheme registry recs = Ok sch /\
      header_from_lines registry lines (Some Silent) lg =
      ([], Ok {| hrecs := recs;
                 herrs := map to_err (snd (expected_header lines)) ++ validate_errs registry recs sch;
                 hmode := Silent |}).
Proof. intros C registry. exact (from_lines_spec registry). Qed.
Print Assumptions C13_from_lines_is_spec.

(* the same records and errors under every stringency; the stringency only
   decides whether the first error is raised / the errors are logged *)
Theorem C13_from_lines_any_stringency :
  forall (C : Type) (registry : list (scheme C)) lines m lg,
    let K := fst (expected_header lines) in
    let recs := map (final_rec K) K in
    exists sch, h_scheme registry recs = Ok sch /\
      let errs := map to_err (snd (expected_header lines)) ++ validate_errs registry recs sch in
      header_from_lines registry lines m lg =
      obind (process (mode_of m) lg errs)
            (fun _ => oret {| hrecs := recs; herrs := errs; hmode := mode_of m |}).
Proof. intros C registry. exact (from_lines_spec_any_mode registry). Qed.
Print Assumptions C13_from_lines_any_stringency.

(* every stored record has the key it is filed under and holds the value the
   pragma stands for (text / contig names / the named order with the header's
   contigs when it is a coordinate order) *)
Theorem C13_records_reflect_pragmas :
  forall lines p k v,
    let K := fst (expected_header lines) in
    In (p, k, v) K ->
    exists hv, final_rec K (p, k, v) = (k, {| hkey := k; hval := hv |}) /\
               reflects (interpret K k v) hv.
Proof. exact final_rec_reflects. Qed.
Print Assumptions C13_records_reflect_pragmas.

(* first of duplicates: kept keys are pairwise different, and a pragma is kept
   iff it is the first well-formed line with its key (at its 1-based number) *)
Theorem C13_duplicates_keep_first :
  forall lines,
    NoDup (map kept_key (fst (expected_header lines))) /\
    forall p k v,
      In (p, k, v) (fst (expected_header lines)) <->
      exists i l, p = Z.of_nat i + 1 /\ nth_error lines i = Some l /\
                  classify l = WellFormed k v /\ ~ earlier_key lines i k.
Proof. intros lines. split; [exact (header_keys_nodup lines)|exact (header_kept_iff lines)]. Qed.
Print Assumptions C13_duplicates_keep_first.

(* a diagnostic (d, p) is reported iff line p (1-based) is malformed with that
   category, or is well-formed with a key an earlier well-formed line has *)
Theorem C13_positions_one_based :
  forall lines d p,
    In (d, p) (snd (expected_header lines)) <->
    exists i l, p = Z.of_nat i + 1 /\ nth_error lines i = Some l /\
      ((exists c, classify l = Malformed c /\ d = DMalformed c) \/
       (exists k v, classify l = WellFormed k v /\ d = DDuplicate /\ earlier_key lines i k)).
Proof. exact header_diag_iff. Qed.
Print Assumptions C13_positions_one_based.

(* both lists are in line order and every line yields exactly one entry *)
Theorem C13_in_line_order :
  forall lines,
    StronglySorted Z.lt (map kept_pos (fst (expected_header lines))) /\
    StronglySorted Z.lt (map snd (snd (expected_header lines))) /\
    (length (fst (expected_header lines)) + length (snd (expected_header lines)) = length lines)%nat.
Proof. exact header_in_line_order. Qed.
Print Assumptions C13_in_line_order.

(* ---------- print / parse ---------- *)
(* whatever the first parse's stringency: printing the returned header and
   parsing the lines again gives the same records and no parse-stage
   diagnostic at all (only the header-level checks remain) *)
Theorem C13_round_trip :
  forall (C : Type) (registry : list (scheme C)) lines m lg lg' l h,
    header_from_lines registry lines m lg = (l, Ok h) ->
    exists sch, h_scheme registry (hrecs h) = Ok sch /\
      header_from_lines registry (header_print_lines (hrecs h)) (Some Silent) lg' =
      ([], Ok {| hrecs := hrecs h; herrs := validate_errs registry (hrecs h) sch; hmode := Silent |}).
Proof. intros C registry. exact (round_trip registry). Qed.
Print Assumptions C13_round_trip.

Theorem C13_print_lines_split :
  forall (C : Type) (registry : list (scheme C)) lines m lg l h,
    header_from_lines registry lines m lg = (l, Ok h) ->
    Forall (fun ln => ~ In LF ln) lines -> hrecs h <> [] ->
    split LF (header_print (hrecs h)) = header_print_lines (hrecs h).
Proof. intros C registry. exact (print_lines_split registry). Qed.
Print Assumptions C13_print_lines_split.

Theorem C13_round_trip_text :
  forall (C : Type) (registry : list (scheme C)) lines m lg lg' l h,
    header_from_lines registry lines m lg = (l, Ok h) ->
    Forall (fun ln => ~ In LF ln) lines -> hrecs h <> [] ->
    exists sch, h_scheme registry (hrecs h) = Ok sch /\
      header_from_lines registry (split LF (header_print (hrecs h))) (Some Silent) lg' =
      ([], Ok {| hrecs := hrecs h; herrs := validate_errs registry (hrecs h) sch; hmode := Silent |}).
Proof. intros C registry. exact (round_trip_text registry). Qed.
Print Assumptions C13_round_trip_text.

(* ---------- accessors and header-level checks ---------- *)
Theorem C13_accessors :
  forall (C : Type) (registry : list (scheme C)) lines m lg l h,
    header_from_lines registry lines m lg = (l, Ok h) ->
    let K := fst (expected_header lines) in
    h_version (hrecs h) = kept_value SP_VERSION K /\
    h_annotation (hrecs h) = kept_value SP_ANNOT K /\
    h_contigs (hrecs h) = option_map (split COMMA) (kept_value SP_CONTIGS K) /\
    (kept_value SP_SORT K = None -> h_sort_order (hrecs h) = (SoUnsorted, [])) /\
    (forall v, kept_value SP_SORT K = Some v ->
       exists o cs, interpret K SP_SORT v = POrder (so_name o) cs /\ so_name o = v /\
                    h_sort_order (hrecs h) = (o, cs)).
Proof. intros C registry. exact (accessors_spec registry). Qed.
Print Assumptions C13_accessors.

(* scheme() never raises *)
Theorem C13_scheme_total :
  forall (C : Type) (registry : list (scheme C)) recs, exists sch, h_scheme registry recs = Ok sch.
Proof. intros C registry. exact (h_scheme_ok registry). Qed.
Print Assumptions C13_scheme_total.

(* validate(): the error types are the decision table of the spec, on any
   header; none of them carries a line number *)
Theorem C13_checks_decision_table :
  forall (C : Type) (registry : list (scheme C)) recs sch,
    map etpe (validate_errs registry recs sch) =
    header_checks (h_contains K_VERSION recs) (version_known registry recs) (sch_basic sch)
                  (h_contains K_ANNOT recs) (annot_known registry recs) /\
    Forall (fun e => eline e = None) (validate_errs registry recs sch).
Proof. intros C registry. exact (checks_decision_table registry). Qed.
Print Assumptions C13_checks_decision_table.

(* "known" means: the raw value is a text that some registered scheme has *)
Theorem C13_known_means_registered :
  forall (C : Type) (registry : list (scheme C)) (f : scheme C -> str) hv,
    existsb (fun s => hval_is_text hv (f s)) registry = true <->
    exists t, hv = HText t /\ In t (map f registry).
Proof. intros C registry. exact (known_iff registry). Qed.
Print Assumptions C13_known_means_registered.

(* on a parsed header the inputs of the table are read off the kept pragmas *)
Theorem C13_checks_reflect_pragmas :
  forall (C : Type) (registry : list (scheme C)) lines m lg l h sch,
    header_from_lines registry lines m lg = (l, Ok h) ->
    let K := fst (expected_header lines) in
    map etpe (validate_errs registry (hrecs h) sch) =
    header_checks (is_some (kept_value SP_VERSION K))
                  (match kept_value SP_VERSION K with
                   | Some v => existsb (str_eqb v) (map s_version registry) | None => false end)
                  (sch_basic sch)
                  (is_some (kept_value SP_ANNOT K))
                  (match kept_value SP_ANNOT K with
                   | Some v => existsb (str_eqb v) (map s_annot registry) | None => false end).
Proof. intros C registry. exact (parsed_checks registry). Qed.
Print Assumptions C13_checks_reflect_pragmas.

(* ---------- a derived header is independent of its source ---------- *)
(* store model: header records and contig lists are heap objects.  For any
   well-formed source header (every record ref points to a record cell, every
   list ref inside to a list cell), copy.deepcopy leaves the source reading the
   same, the copy reads the same as the source, every object the copy reaches
   is new, none of the source's is, and the two are separate *)
Theorem C13_derived_copy_is_fresh :
  forall hp src hp1 cp,
    wf hp src -> deepcopy hp [] src = (hp1, cp) ->
    view hp1 src = view hp src /\ view hp1 cp = view hp src /\
    (forall x, in_fp hp1 cp x -> (length hp <= x)%nat) /\
    (forall x, in_fp hp1 src x -> (x < length hp)%nat) /\
    separate hp1 src cp.
Proof. exact deepcopy_spec. Qed.
Print Assumptions C13_derived_copy_is_fresh.

(* whatever sequence of mutations (new record, delete, in-place value / key
   assignment, in-place append to a contig list, new contigs record) is applied
   to the derived header, the source reads as before - and the other way round *)
Theorem C13_derived_header_independent :
  forall hp src hp1 cp,
    wf hp src -> deepcopy hp [] src = (hp1, cp) ->
    (forall ms hp2 cp', apply_muts hp1 cp ms = (hp2, cp') -> view hp2 src = view hp src) /\
    (forall ms hp2 src', apply_muts hp1 src ms = (hp2, src') -> view hp2 cp = view hp src).
Proof. exact derived_header_independent. Qed.
Print Assumptions C13_derived_header_independent.

(* after any interleaved history of mutations of both headers they are still
   separate: a further mutation of either one is invisible through the other *)
Theorem C13_derived_header_stays_separate :
  forall hp src hp1 cp ms hp2 src' cp',
    wf hp src -> deepcopy hp [] src = (hp1, cp) ->
    apply_both hp1 src cp ms = (hp2, src', cp') ->
    separate hp2 src' cp' /\
    (forall m hp3 x, apply_mut hp2 src' m = (hp3, x) -> view hp3 cp' = view hp2 cp') /\
    (forall m hp3 x, apply_mut hp2 cp' m = (hp3, x) -> view hp3 src' = view hp2 src').
Proof. exact derived_header_stays_separate. Qed.
Print Assumptions C13_derived_header_stays_separate.

(* the well-formedness hypothesis is met by every parsed header: building the
   objects of a header from_lines returned (one list object shared by the
   contigs record and the coordinate sort order) gives a well-formed header
   object that reads back as that header ... *)
Theorem C13_parsed_header_allocates :
  forall (C : Type) (registry : list (scheme C)) lines m lg l h hp hp' sh,
    header_from_lines registry lines m lg = (l, Ok h) ->
    alloc_header hp (hrecs h) None = (hp', sh) ->
    wf hp' sh /\ view hp' sh = hrecs h.
Proof. intros C registry. exact (parsed_header_allocates registry). Qed.
Print Assumptions C13_parsed_header_allocates.

(* ... so: a header derived (deepcopy) from a parsed header reads as the parsed
   header, and no history of mutations of either changes what the other reads as *)
Theorem C13_parsed_derived_independent :
  forall (C : Type) (registry : list (scheme C)) lines m lg l h hp hp0 src hp1 cp,
    header_from_lines registry lines m lg = (l, Ok h) ->
    alloc_header hp (hrecs h) None = (hp0, src) ->
    deepcopy hp0 [] src = (hp1, cp) ->
    view hp1 cp = hrecs h /\
    (forall ms hp2 cp', apply_muts hp1 cp ms = (hp2, cp') -> view hp2 src = hrecs h) /\
    (forall ms hp2 src', apply_muts hp1 src ms = (hp2, src') -> view hp2 cp = hrecs h).
Proof. intros C registry. exact (parsed_derived_independent registry). Qed.
Print Assumptions C13_parsed_derived_independent.

(* ---------- non-vacuity ---------- *)
Definition l_version : str := [35;118;101;114;115;105;111;110;32;103;100;99;45;49;46;48;46;48]%N. (* #version gdc-1.0.0 *)
Definition l_contigs : str := [35;99;111;110;116;105;103;115;32;99;104;114;49;44;99;104;114;50]%N. (* #contigs chr1,chr2 *)
Definition l_sort : str := [35;115;111;114;116;46;111;114;100;101;114;32;67;111;111;114;100;105;110;97;116;101]%N. (* #sort.order Coordinate *)
Definition l_k : str := [35;107;32;97;32;32;98;32;32]%N. (* #k a  b   (trailing blanks) *)
Definition l_dup : str := [35;118;101;114;115;105;111;110;32;120]%N. (* #version x *)
Definition l_nosep : str := [35;110;111;115;101;112]%N. (* #nosep *)
Definition l_nostart : str := [118;101;114;115;105;111;110;32;49]%N. (* version 1 *)
Definition l_nokey : str := [35;32;118]%N. (* # v *)
Definition l_noval : str := [35;101;32;32;32;9]%N. (* #e   \t *)
Definition l_badsort : str := [35;115;111;114;116;46;111;114;100;101;114;32;66;111;103;117;115]%N. (* #sort.order Bogus *)
Definition s_gdc : str := [103;100;99;45;49;46;48;46;48]%N. (* gdc-1.0.0 *)
Definition s_prot : str := [103;100;99;45;49;46;48;46;48;45;112;114;111;116;101;99;116;101;100]%N. (* gdc-1.0.0-protected *)
Definition s_chr1 : str := [99;104;114;49]%N. (* chr1 *)
Definition s_chr2 : str := [99;104;114;50]%N. (* chr2 *)
Definition s_k : str := [107]%N. (* k *)
Definition s_ab : str := [97;32;32;98]%N. (* a  b *)
Definition v_contigs : str := [99;104;114;49;44;99;104;114;50]%N. (* chr1,chr2 *)
Definition l_k_canon : str := [35;107;32;97;32;32;98]%N. (* #k a  b *)

Definition demo_lines : list str :=
  [l_version; l_contigs; l_sort; l_k; l_dup; l_nosep; l_nostart; l_nokey; l_noval; l_badsort].
Definition demo_registry : list (scheme unit) :=
  [ {| s_version := s_gdc; s_annot := s_gdc; s_cols := []; s_norestr := false |};
    {| s_version := s_gdc; s_annot := s_prot; s_cols := []; s_norestr := false |} ].

(* the spec side: four kept pragmas with their line numbers; six diagnostics *)
Example demo_expected :
  expected_header demo_lines =
  ([(1, SP_VERSION, s_gdc); (2, SP_CONTIGS, v_contigs); (3, SP_SORT, N_COORD); (4, s_k, s_ab)],
   [(DDuplicate, 5); (DMalformed MissingSep, 6); (DMalformed MissingStart, 7);
    (DMalformed EmptyKey, 8); (DMalformed EmptyValue, 9); (DMalformed BadSortOrder, 10)]).
Proof. vm_compute. reflexivity. Qed.

(* the model side: the records (the coordinate order received the contigs) and
   the errors with their 1-based numbers; the basic scheme is found, so no
   header-level error *)
Definition demo_header : header :=
  {| hrecs := [ (K_VERSION, {| hkey := K_VERSION; hval := HText s_gdc |});
                (K_CONTIGS, {| hkey := K_CONTIGS; hval := HContigs [s_chr1; s_chr2] |});
                (K_SORT, {| hkey := K_SORT; hval := HOrder SoCoordinate [s_chr1; s_chr2] |});
                (s_k, {| hkey := s_k; hval := HText s_ab |}) ];
     herrs := [ mkerr 5 (Some 5); mkerr 2 (Some 6); mkerr 1 (Some 7); mkerr 3 (Some 8);
                mkerr 4 (Some 9); mkerr 10 (Some 10) ];
     hmode := Silent |}.
Example demo_parse :
  header_from_lines demo_registry demo_lines (Some Silent) LgRoot = ([], Ok demo_header).
Proof. vm_compute. reflexivity. Qed.

(* strict parsing of the same lines raises the first diagnostic with its number *)
Example demo_parse_strict :
  header_from_lines demo_registry demo_lines (Some Strict) LgRoot = ([], Raise (MafFormat 5 (Some 5))).
Proof. vm_compute. reflexivity. Qed.

(* the hypotheses of the round trip hold: printing gives the canonical lines
   (trailing blanks gone), they contain no LF, and parsing them again gives the
   same records and no error *)
Example demo_print :
  header_print_lines (hrecs demo_header) = [l_version; l_contigs; l_sort; l_k_canon].
Proof. vm_compute. reflexivity. Qed.
Example demo_reparse :
  header_from_lines demo_registry (split LF (header_print (hrecs demo_header))) (Some Silent) LgRoot
  = ([], Ok {| hrecs := hrecs demo_header; herrs := []; hmode := Silent |}).
Proof. vm_compute. reflexivity. Qed.

(* the accessors *)
Example demo_accessors :
  (h_version (hrecs demo_header), h_annotation (hrecs demo_header),
   h_contigs (hrecs demo_header), h_sort_order (hrecs demo_header))
  = (Some s_gdc, None, Some [s_chr1; s_chr2], (SoCoordinate, [s_chr1; s_chr2])).
Proof. vm_compute. reflexivity. Qed.

(* the decision table bites: no version -> 6 then 8; an annotation next to a
   basic scheme -> 9; unknown version -> 7 and (no scheme) missing annotation 8 *)
Example demo_checks :
  (map etpe (validate_errs demo_registry [] None),
   map etpe (validate_errs demo_registry
               [(K_VERSION, {| hkey := K_VERSION; hval := HText s_gdc |});
                (K_ANNOT, {| hkey := K_ANNOT; hval := HText s_gdc |})]
               (Some {| s_version := s_gdc; s_annot := s_gdc; s_cols := []; s_norestr := false |})),
   map etpe (validate_errs demo_registry
               [(K_VERSION, {| hkey := K_VERSION; hval := HText s_k |})] None))
  = ([6; 8], [9], [7; 8]).
Proof. vm_compute. reflexivity. Qed.

(* the store model: the parsed header as from_lines builds it (the contig list
   object is shared by the contigs record and the coordinate sort order) is
   well-formed and reads as the value-model header *)
Definition demo_store : heap * sheader := alloc_header [] (hrecs demo_header) None.
Example demo_store_wf : wfb (fst demo_store) (snd demo_store) = true.
Proof. vm_compute. reflexivity. Qed.
Example demo_store_view : view (fst demo_store) (snd demo_store) = hrecs demo_header.
Proof. vm_compute. reflexivity. Qed.
Definition demo_copy : heap * sheader := deepcopy (fst demo_store) [] (snd demo_store).
Example demo_copy_view : view (fst demo_copy) (snd demo_copy) = hrecs demo_header.
Proof. vm_compute. reflexivity. Qed.
(* mutating the copy in place (append to its contig list, overwrite its version,
   delete a record): the copy changes - both records sharing the list - the source does not *)
Definition demo_muts : list mut :=
  [MAppendContig K_CONTIGS s_k; MAssignValue K_VERSION s_k; MDel s_k].
Example demo_mutate_copy :
  let '(hp2, cp') := apply_muts (fst demo_copy) (snd demo_copy) demo_muts in
  (view hp2 (snd demo_store), view hp2 cp') =
  (hrecs demo_header,
   [ (K_VERSION, {| hkey := K_VERSION; hval := HText s_k |});
     (K_CONTIGS, {| hkey := K_CONTIGS; hval := HContigs [s_chr1; s_chr2; s_k] |});
     (K_SORT, {| hkey := K_SORT; hval := HOrder SoCoordinate [s_chr1; s_chr2; s_k] |}) ]).
Proof. vm_compute. reflexivity. Qed.
(* the model can tell: without the deepcopy (an alias of the same header
   object) the same in-place mutation is visible through the source *)
Example demo_alias_is_visible :
  let '(hp2, _) := apply_muts (fst demo_store) (snd demo_store) demo_muts in
  h_contigs (view hp2 (snd demo_store)) = Some [s_chr1; s_chr2; s_k].
Proof. vm_compute. reflexivity. Qed.

(* ====================================================================== *)
(* LineReader / from_line_reader, from_defaults / from_reader /
   scheme_header_lines (proofs/HeaderLineReader.v, proofs/HeaderDerive.v)   *)
(* ====================================================================== *)
From MafVerif Require Import model.LineReader proofs.HeaderLineReader proofs.HeaderDerive.

(* from_line_reader lr = from_lines (numbered from the reader's position + 1)
   of the maximal prefix of lines starting with '#' that the reader still holds; afterwards the reader has counted
   exactly those lines and shows the line right behind them (lines beyond the
   end of the input read as "") *)
Theorem C13_from_line_reader_is_from_lines :
  forall (C : Type) (registry : list (scheme C)) (lr : linereader) m lg,
    let pre := take_while is_header_line (lr_view lr) in
    let out := header_from_line_reader registry lr m lg in
    fst out = header_from_lines_at registry (lr_no lr + 1) pre m lg /\
    lr_no (snd out) = lr_no lr + Z.of_nat (length pre) /\
    (forall i, nth i (lr_view (snd out)) [] = nth (length pre + i) (lr_view lr) []).
Proof. intros C registry lr m lg. exact (from_line_reader_spec registry lr m lg). Qed.
Print Assumptions C13_from_line_reader_is_from_lines.

(* ... where from_lines with first_line_number = first numbers its lines first,
   first+1, ...: the default is 1, and the loop is the one C13_loop_is_spec
   describes started at first-1, so a diagnostic for the k-th (0-based) of these
   lines carries lr_no lr + k + 1, its number in the reader's input *)
Theorem C13_from_lines_at :
  forall (C : Type) (registry : list (scheme C)) lines m lg,
    header_from_lines_at registry 1 lines m lg = header_from_lines registry lines m lg /\
    forall first,
      exists recs errs, parse_header_lines (first - 1) lines [] [] = (recs, errs) /\
        fst (parse_header_lines 0 lines [] []) = recs /\
        errs = map (shift_err (first - 1)) (snd (parse_header_lines 0 lines [] [])).
Proof.
  intros C registry lines m lg. split; [reflexivity|]. intros first.
  exact (parse_header_lines_shift lines (first - 1)).
Qed.
Print Assumptions C13_from_lines_at.

(* read_line steps over a non-empty line and counts it; on an empty line, as
   at the end of the input, it returns "" and does not move *)
Theorem C13_line_reader_read_line :
  forall (lr : linereader),
    match lr_line lr with
    | [] => lr_read_line lr = ([], lr)
    | c :: cur =>
        fst (lr_read_line lr) = c :: cur /\ lr_no (snd (lr_read_line lr)) = lr_no lr + 1 /\
        forall i, nth i (lr_view (snd (lr_read_line lr))) [] = nth (S i) (lr_view lr) []
    end.
Proof. exact lr_read_line_spec. Qed.
Print Assumptions C13_line_reader_read_line.

(* from_defaults(version, annotation) prints the two lines
   scheme_header_lines gives for a scheme with that pair *)
Theorem C13_defaults_print_scheme_lines :
  forall (C : Type) (s : scheme C) c v d a,
    s_version s = c :: v -> s_annot s = d :: a ->
    exists h, header_from_defaults (Some (s_version s)) (Some (s_annot s)) None None = Ok h /\
              header_print_lines (hrecs h) = scheme_header_lines s /\ herrs h = [] /\ hmode h = Silent.
Proof. intros C s c v d a. exact (defaults_print_scheme_lines s c v d a). Qed.
Print Assumptions C13_defaults_print_scheme_lines.

(* all four arguments: exactly those pragmas, in the order they are set; a
   coordinate-type order carries the contigs given *)
Theorem C13_defaults_print_all :
  forall c v d a x cs o own,
    exists h, header_from_defaults (Some (c :: v)) (Some (d :: a)) (Some (SoArgInst o own)) (Some (x :: cs)) = Ok h /\
      header_print_lines (hrecs h) =
        [ pragma_line K_VERSION (c :: v); pragma_line K_ANNOT (d :: a);
          pragma_line K_CONTIGS (join [COMMA] (x :: cs)); pragma_line K_SORT (so_name o) ] /\
      h_sort_order (hrecs h) = (o, if so_is_coord o then x :: cs else own).
Proof. exact defaults_print_all. Qed.
Print Assumptions C13_defaults_print_all.

(* a sort order that brings its own contigs and no contigs argument: the
   contigs pragma is derived from it; contigs without a sort order; falsy
   arguments (None, "", []) change nothing; an unknown order name raises *)
Theorem C13_defaults_other_combinations :
  (forall c v o x own,
     exists h, header_from_defaults (Some (c :: v)) None (Some (SoArgInst o (x :: own))) None = Ok h /\
       header_print_lines (hrecs h) =
         [ pragma_line K_VERSION (c :: v); pragma_line K_SORT (so_name o);
           pragma_line K_CONTIGS (join [COMMA] (x :: own)) ]) /\
  (forall x cs,
     exists h, header_from_defaults None None None (Some (x :: cs)) = Ok h /\
       header_print_lines (hrecs h) = [ pragma_line K_CONTIGS (join [COMMA] (x :: cs)) ]) /\
  (forall recs,
     apply_overrides recs None None None None = Ok recs /\
     apply_overrides recs (Some []) (Some []) (Some (SoArgName [])) (Some []) = Ok recs) /\
  (forall recs name, name <> [] -> so_of_name name = None ->
     apply_overrides recs None None (Some (SoArgName name)) None = Raise PlainException).
Proof.
  split; [exact defaults_print_order_with_contigs|].
  split; [exact defaults_print_contigs_only|].
  split; [exact overrides_falsy|exact overrides_unknown_order].
Qed.
Print Assumptions C13_defaults_other_combinations.

(* from_reader = the same overrides applied to a copy of the reader's header *)
Theorem C13_from_reader_is_overrides :
  forall (src : header) v a so cs h,
    header_from_reader src v a so cs = Ok h ->
    apply_overrides (hrecs src) v a so cs = Ok (hrecs h) /\ herrs h = herrs src /\ hmode h = hmode src.
Proof. exact from_reader_is_overrides. Qed.
Print Assumptions C13_from_reader_is_overrides.

(* ... and in the store model these overrides are mutations of the deep copy:
   the derived header reads as the overrides of the source's pragmas while the
   reader's own header reads as before *)
Theorem C13_from_reader_leaves_source_untouched :
  forall hp src hp1 cp c v d a x cs,
    wf hp src -> deepcopy hp [] src = (hp1, cp) ->
    let ms := [MSetText K_VERSION (c :: v); MSetText K_ANNOT (d :: a); MSetContigs (x :: cs)] in
    view (fst (apply_muts hp1 cp ms)) src = view hp src /\
    apply_overrides (view hp src) (Some (c :: v)) (Some (d :: a)) None (Some (x :: cs)) =
    Ok (view (fst (apply_muts hp1 cp ms)) (snd (apply_muts hp1 cp ms))).
Proof. exact from_reader_in_store. Qed.
Print Assumptions C13_from_reader_leaves_source_untouched.

(* an empty line inside the pragma block: handle "#k v\n", "\n", "#j w\n".
   from_line_reader reads the first pragma only; the reader then shows "" and
   read_line never gets past the empty line *)
Definition lr_demo : linereader := lr_new [[35;107;32;118;10]%N; [10%N]; [35;106;32;119;10]%N].
Example empty_line_in_pragma_block_values :
  let out := header_from_line_reader (@nil (scheme unit)) lr_demo (Some Silent) LgRoot in
  match snd (fst out) with Ok h => map fst (hrecs h) | Raise _ => [] end = [[107%N]] /\
  lr_no (snd out) = 1 /\ lr_peek (snd out) = [] /\
  lr_read_line (snd out) = ([], snd out) /\ fst (lr_next (snd out)) = Raise StopIteration.
Proof. vm_compute. repeat split. Qed.
