(* C02 - Files written by the library read back identically (plain, gzip,
   handle).  Property theorems only; proofs are in proofs/FileIOText.v
   (framing of the text), proofs/FileIORecord.v (one record),
   proofs/FileIOWrite.v / FileIORead.v (writer and reader sessions),
   proofs/FileIORows.v, proofs/FileIORoundTrip.v, proofs/FileIOTheorems.v.

   Model: model/FileIO.v.  `write_file h m rs` is MafWriter.from_path/from_fd
   (header h, stringency m, sorting off), `writer += r` for each r, close();
   its entries are the texts handed to handle.write, each followed by "\n";
   the three channels receive the same calls, so the theorems are channel-free
   (the plugin compares the bytes of all three).  `round_trip_of h m rs tr`
   writes, reads the text back (tr = true: by path, with universal-newline
   translation; false: from a handle) with MafReader under the same
   stringency, and writes the header and records the reader returned again.

   The theorems hold for every column semantics `sem` satisfying the two
   stated hypotheses: isinstance(MafColumnRecord, MafColumnRecord), and
   `record_fixpoint` - property C04 at field level: a value a typed class built
   and accepts, outside C04's side condition `value_hazard` (a one-element
   list whose element renders as the empty text), is built again from its own
   rendering.  Header h ranges over the image of MafHeader.from_lines on lines
   free of CR/LF (every header the grammar can carry). *)
From MafVerif Require Import lib.Base lib.Str model.RecordOps model.Validation model.Header
  model.RecordParse model.Reader model.WriterMode model.FileIO
  proofs.FileIOText proofs.FileIORecord proofs.FileIOWrite proofs.FileIORead proofs.FileIORows
  proofs.FileIORoundTrip proofs.FileIOTheorems proofs.FileIOParsed.

(* ====================================================================== *)
(* framing                                                                 *)
(* ====================================================================== *)

(* (i) the pragma lines of a file are its maximal '#'-prefixed prefix: reading
   stops at the first line that does not start with '#' - the column line -
   whatever the lines after it start with, so a data line whose first field
   begins with '#' is never taken for a pragma *)
Theorem C02_pragma_block_is_header :
  forall (hl : list str) (c : str) (data : list str) (n : Z) (acc : list str),
    Forall (fun l => no_crlf l /\ startswith l [HASH] = true) hl ->
    no_crlf c -> startswith c [HASH] = false ->
    read_header_lines (hl ++ c :: data) n acc = (acc ++ hl, Some c, n + Z.of_nat (length hl) + 1, data).
Proof. exact read_header_lines_block. Qed.
Print Assumptions C02_pragma_block_is_header.

(* ... and the column line the writer emits starts with '#' only if the first
   column name does *)
Theorem C02_column_line_not_pragma :
  forall (n0 : str) (names : list str),
    startswith n0 [HASH] = false -> startswith (join [TAB] (n0 :: names)) [HASH] = false.
Proof. exact column_line_no_hash. Qed.
Print Assumptions C02_column_line_not_pragma.

(* (ii) empty trailing fields survive: rstrip("\r\n") does not strip TAB *)
Theorem C02_fields_survive :
  forall fs : list str, fs <> [] -> Forall no_sep fs -> split TAB (rstrip_crlf (join [TAB] fs)) = fs.
Proof. exact fields_survive. Qed.
Print Assumptions C02_fields_survive.

(* (iii)+(iv) the lines of the written file are the printed pragma lines
   followed by the other entries - by path and from a handle alike; an empty
   header contributes no line, not even a blank one *)
Theorem C02_written_lines :
  forall (recs : list (str * hrec)) (rest : list str) (translate : bool),
    Forall no_crlf (header_print_lines recs) -> Forall no_crlf rest ->
    (if translate then file_lines (file_text (header_entries recs ++ rest))
     else lines_of (file_text (header_entries recs ++ rest)))
    = header_print_lines recs ++ rest.
Proof. exact written_lines. Qed.
Print Assumptions C02_written_lines.

Theorem C02_empty_header_no_blank_line :
  forall rest : list str, file_text (header_entries [] ++ rest) = file_text rest.
Proof. intros rest. exact eq_refl. Qed.
Print Assumptions C02_empty_header_no_blank_line.

(* ====================================================================== *)
(* the round trip                                                          *)
(* ====================================================================== *)

(* Recognised layout s (the scheme the header's pragmas select), any
   stringency m for which the writer accepted the header and every record
   without a validation error (Strict: nothing raised).  The records are typed
   by the layout (`typed_by`: every stored value is of exactly the scheme's
   class for its column, was built by that class, and is outside C04's side
   condition) and are supplied in the declared order (`in_declared_order`: the
   reader's SortOrderChecker accepts each after its predecessor; vacuous
   unless the header declares Coordinate or BarcodesAndCoordinate).  The
   layout's names are ones the format can carry (`carriable`; checked for all
   registered layouts each run).
   Then the reader opens (rd), iterates to the end without raising, holds the
   same header records (hence prints the same pragma lines in the same order),
   works with the layout (same column line), returns one record per record
   with the same (name, value) cells in the same order and no error, whose
   slots equal the written record's (name, index, class and value, error list;
   `slot_view` leaves out only the identity of the column object) and whose
   text is the written line; and
   writing rd's header and these records again gives the same text. *)
Theorem C02_round_trip_layout :
  forall (C W K : Type) (sem : colsem C W) (registry : list (scheme (cls C)))
         (key_of : sorder -> list str -> rec (payload C W) -> res K) (key_lt : K -> K -> bool),
    cs_isinst sem CPlain CPlain = true ->
    forall value_hazard : C -> W -> bool,
    (forall k t w t', cs_build sem k t = Some w -> cs_invalid sem k w = false ->
                      cs_str sem k w = Some t' -> has_sep t' = false -> value_hazard k w = false ->
                      cs_build sem k t' = Some w) ->
    forall hl m0 lg0 l0 (h : header) (s : scheme (cls C)) (m : mode) (rs : list (mrec C W)) (translate : bool),
      header_from_lines registry hl m0 lg0 = (l0, Ok h) -> Forall no_crlf hl ->
      h_scheme registry (hrecs h) = Ok (Some s) ->
      s_truthy s = true -> carriable (s_names s) -> NoDup (s_names s) ->
      Forall (typed_by sem value_hazard s) rs ->
      let w1 := write_file sem registry h (Some m) rs in
      wr_clean w1 = true ->
      in_declared_order key_of key_lt (hrecs h)
        (map (fun v => reread_view sem s (mcols v)) (accepted_records w1)) ->
      let rt := round_trip_of sem registry key_of key_lt h (Some m) rs translate in
      exists rd w2,
        run_init (rt_read rt) = Ok rd /\ run_end (rt_read rt) = EndStop /\
        hrecs (rd_header rd) = hrecs h /\ rd_scheme rd = Some s /\
        Forall2 (fun r' r => cells_of_rec (mcols r') = cells_of_rec (mcols r) /\ merrs r' = [])
                (run_recs (rt_read rt)) rs /\
        Forall2 (fun r' v => map (@slot_view C W) (rlist (mcols r')) = map (@slot_view C W) (rlist (mcols v)) /\
                             record_text sem r' = record_text sem v)
                (run_recs (rt_read rt)) (accepted_records w1) /\
        rt_second rt = Some w2 /\ wr_clean w2 = true /\ wr_text w2 = wr_text w1.
Proof.
  intros C W K sem registry key_of key_lt Hplain value_hazard Hfix.
  exact (round_trip_layout sem registry key_of key_lt Hplain value_hazard Hfix).
Qed.
Print Assumptions C02_round_trip_layout.

(* the premise `typed_by` is what parsing gives: every record
   MafRecord.from_line returns without validation error under layout s holds,
   in every column, a value of exactly the layout's class built by that class;
   it is typed by s as soon as none of its values falls under C04's side
   condition *)
Theorem C02_parsed_records_are_typed :
  forall (C W : Type) (sem : colsem C W) (value_hazard : C -> W -> bool)
         (s : scheme (cls C)) line ln m lg l (r : mrec C W),
    s_truthy s = true -> NoDup (s_names s) ->
    from_line sem line None (Some s) ln (Some m) lg = (l, Ok r) -> merrs r = [] ->
    Forall (fun np => match snd np with PTyped c w => value_hazard c w = false | PPlain _ => True end)
           (cells_of_rec (mcols r)) ->
    typed_by sem value_hazard s r.
Proof. intros C W sem value_hazard. exact (parsed_typed_by sem value_hazard). Qed.
Print Assumptions C02_parsed_records_are_typed.

(* Scheme-less column set: the header selects no scheme, the first record's
   names become the column line.  The writer accepting the first record
   implies that the format can carry its column names: the repaired
   MafWriter.__iadd__ refuses a first name starting with '#' and any name
   containing TAB, CR or LF with ValueError before writing anything
   and a first record without columns too (C02_uncarriable_names_refused
   below; formerly known findings).  No premise on the names is left.
   Then: the reader settles on exactly those names, returns one record per
   record whose cells are the same names in the same order, each holding the
   text that was written for it, without validation error; the second write
   gives the same text.  Any stringency under which the writer raised nothing
   (the property asks for Silent). *)
Theorem C02_round_trip_schemeless :
  forall (C W K : Type) (sem : colsem C W) (registry : list (scheme (cls C)))
         (key_of : sorder -> list str -> rec (payload C W) -> res K) (key_lt : K -> K -> bool),
    cs_isinst sem CPlain CPlain = true ->
    forall value_hazard : C -> W -> bool,
    (forall k t w t', cs_build sem k t = Some w -> cs_invalid sem k w = false ->
                      cs_str sem k w = Some t' -> has_sep t' = false -> value_hazard k w = false ->
                      cs_build sem k t' = Some w) ->
    forall hl m0 lg0 l0 (h : header) (m : mode) (r1 : mrec C W) (rest : list (mrec C W)) (translate : bool),
      header_from_lines registry hl m0 lg0 = (l0, Ok h) -> Forall no_crlf hl ->
      h_scheme registry (hrecs h) = Ok None ->
      let s := no_restrictions (record_names r1) in
      let rs := r1 :: rest in
      let w1 := write_file sem registry h (Some m) rs in
      wr_clean w1 = true ->
      in_declared_order key_of key_lt (hrecs h)
        (map (fun v => reread_view sem s (mcols v)) (accepted_records w1)) ->
      let rt := round_trip_of sem registry key_of key_lt h (Some m) rs translate in
      exists rd w2,
        run_init (rt_read rt) = Ok rd /\ run_end (rt_read rt) = EndStop /\
        hrecs (rd_header rd) = hrecs h /\
        option_map (@s_names C) (rd_scheme rd) = Some (record_names r1) /\
        Forall2 (fun r' r => cells_of_rec (mcols r') = reread_cells sem s (cells_of_rec (mcols r)) /\ merrs r' = [])
                (run_recs (rt_read rt)) rs /\
        Forall2 (fun r' v => record_text sem r' = record_text sem v)
                (run_recs (rt_read rt)) (accepted_records w1) /\
        rt_second rt = Some w2 /\ wr_clean w2 = true /\ wr_text w2 = wr_text w1.
Proof.
  intros C W K sem registry key_of key_lt Hplain value_hazard Hfix.
  exact (round_trip_schemeless sem registry key_of key_lt Hplain value_hazard Hfix).
Qed.
Print Assumptions C02_round_trip_schemeless.

(* every column of a scheme-less record is re-read as its text *)
Theorem C02_schemeless_values_are_texts :
  forall (C W : Type) (sem : colsem C W) (names : list str) (n : str) (p : pvalue C W),
    reread_pv sem (no_restrictions names) n p = PPlain (text_of sem p).
Proof.
  intros C W sem names n p. unfold reread_pv.
  destruct (s_class (no_restrictions names) n) as [[|c]|] eqn:E; try reflexivity.
  apply norestr_class in E. discriminate.
Qed.
Print Assumptions C02_schemeless_values_are_texts.

(* column names the format cannot carry are refused by a scheme-less writer:
   `writer += record` raises ValueError, the writer is unchanged (nothing was
   written for the record, the scheme is not fixed), the session is not clean *)
Theorem C02_uncarriable_names_refused :
  forall (C W : Type) (sem : colsem C W) (registry : list (scheme (cls C)))
         (h : header) (m : mode) (r1 : mrec C W) (rest : list (mrec C W)) lg w,
    writer_init registry h (Some m) = (lg, Ok w) -> h_scheme registry (hrecs h) = Ok None ->
    names_writable (record_names r1) = false ->
    writer_iadd sem w r1 = ([], w, Raise ValueError) /\
    wr_clean (write_file sem registry h (Some m) (r1 :: rest)) = false.
Proof. intros C W sem registry. exact (uncarriable_names_refused sem registry). Qed.
Print Assumptions C02_uncarriable_names_refused.

(* likewise a first record that validation refuses (Strict) leaves the
   scheme-less writer as it was: no scheme adopted, no column line written
   (repaired code, 68d0e15) *)
Theorem C02_invalid_first_record_leaves_writer_unchanged :
  forall (C W : Type) (sem : colsem C W) (w : writer C) (r : mrec C W) lg e,
    w_scheme w = None -> names_writable (record_names r) = true ->
    record_validate sem r (Some (w_mode w)) LgWriter true (Some (no_restrictions (record_names r))) = (lg, Raise e) ->
    writer_iadd sem w r = (lg, w, Raise e).
Proof. intros C W sem. exact (iadd_no_scheme_invalid sem). Qed.
Print Assumptions C02_invalid_first_record_leaves_writer_unchanged.

(* ... and what passes the writer's check is what the column line can carry *)
Theorem C02_writable_names_are_carriable :
  forall names : list str, names_writable names = true -> carriable names.
Proof. exact names_writable_carriable. Qed.
Print Assumptions C02_writable_names_are_carriable.

(* Scheme-less header and no record at all (Silent): only the pragma lines are
   written - nothing for an empty header; the reader returns the same header
   records and no record; the second write gives the same text *)
Theorem C02_round_trip_header_only :
  forall (C W K : Type) (sem : colsem C W) (registry : list (scheme (cls C)))
         (key_of : sorder -> list str -> rec (payload C W) -> res K) (key_lt : K -> K -> bool)
         hl m0 lg0 l0 (h : header) (translate : bool),
    header_from_lines registry hl m0 lg0 = (l0, Ok h) -> Forall no_crlf hl ->
    h_scheme registry (hrecs h) = Ok None ->
    let w1 := write_file sem registry h (Some Silent) [] in
    let rt := round_trip_of sem registry key_of key_lt h (Some Silent) [] translate in
    wr_clean w1 = true /\ wr_entries w1 = header_entries (hrecs h) /\
    exists rd w2,
      run_init (rt_read rt) = Ok rd /\ run_end (rt_read rt) = EndStop /\ run_recs (rt_read rt) = [] /\
      hrecs (rd_header rd) = hrecs h /\ rd_scheme rd = None /\
      rt_second rt = Some w2 /\ wr_clean w2 = true /\ wr_text w2 = wr_text w1.
Proof.
  intros C W K sem registry key_of key_lt.
  exact (round_trip_header_only sem registry key_of key_lt).
Qed.
Print Assumptions C02_round_trip_header_only.

(* ====================================================================== *)
(* non-vacuity and the hazards, on a toy column semantics                  *)
(* ====================================================================== *)
(* one typed class: builds from any non-empty text, the value is the text *)
Definition toy_sem : colsem unit str :=
  {| cs_build := fun _ t => match t with [] => None | _ => Some t end;
     cs_invalid := fun _ _ => false;
     cs_str := fun _ w => Some w;
     cs_isinst := fun a b => match b with
                             | CPlain => true
                             | CTyped _ => match a with CTyped _ => true | CPlain => false end
                             end;
     cs_key_text := fun _ w => Some w;
     cs_key_int := fun _ _ => None |}.
Definition toy_key := skey_of toy_sem (fun _ => None).

Definition t_v1 : str := [118;49]%N.        (* v1 *)
Definition t_a : str := [97]%N.             (* a *)
Definition t_b : str := [98]%N.             (* b *)
Definition toy_layout : scheme (cls unit) :=
  {| s_version := t_v1; s_annot := t_v1; s_cols := [(t_a, CTyped tt); (t_b, CPlain)]; s_norestr := false |}.
Definition toy_registry : list (scheme (cls unit)) := [toy_layout].

(* #version v1 ; #k  x  y<blank> (inner blanks kept, trailing blank dropped) *)
Definition toy_hlines : list str := [[35;118;101;114;115;105;111;110;32;118;49]%N; [35;107;32;32;120;32;32;121;32]%N].
Definition toy_header : header :=
  match header_from_lines toy_registry toy_hlines (Some Silent) LgRoot with
  | (_, Ok h) => h
  | _ => header_new None
  end.
Definition toy_rec (line : str) (names : option (list str)) (sch : option (scheme (cls unit))) : mrec unit str :=
  match from_line toy_sem line names sch None (Some Silent) LgRoot with
  | (_, Ok r) => r
  | _ => mrec_new None None
  end.
(* "p\t" (empty trailing field) and "q\t#z" (a data field starting with '#') *)
Definition toy_rows : list (mrec unit str) :=
  [toy_rec [112;9]%N None (Some toy_layout); toy_rec [113;9;35;122]%N None (Some toy_layout)].
Definition toy_rt (translate : bool) := round_trip_of toy_sem toy_registry toy_key skey_lt toy_header (Some Strict) toy_rows translate.

(* the file: "#version v1\n#k  x  y\na\tb\np\t\nq\t#z\n" *)
Example demo_layout_text :
  wr_text (rt_first (toy_rt false))
  = [35;118;101;114;115;105;111;110;32;118;49;10; 35;107;32;32;120;32;32;121;10; 97;9;98;10; 112;9;10; 113;9;35;122;10]%N.
Proof. vm_compute. reflexivity. Qed.

Ltac solve_cell :=
  vm_compute;
  first [ exact I
        | split; [reflexivity|split; [match goal with |- exists x, _ = Some ?w => exists w; reflexivity end|reflexivity]] ].
Ltac solve_cells := repeat (apply Forall_cons; [solve_cell|]); apply Forall_nil.

(* the hypotheses of C02_round_trip_layout hold for it ... *)
Example demo_layout_hypotheses :
  cs_isinst toy_sem CPlain CPlain = true /\
  (forall k t w t', cs_build toy_sem k t = Some w -> cs_invalid toy_sem k w = false ->
                    cs_str toy_sem k w = Some t' -> has_sep t' = false -> false = false ->
                    cs_build toy_sem k t' = Some w) /\
  header_from_lines toy_registry toy_hlines (Some Silent) LgRoot = ([], Ok toy_header) /\
  Forall no_crlf toy_hlines /\
  h_scheme toy_registry (hrecs toy_header) = Ok (Some toy_layout) /\
  s_truthy toy_layout = true /\ carriable (s_names toy_layout) /\ NoDup (s_names toy_layout) /\
  Forall (typed_by toy_sem (fun _ _ => false) toy_layout) toy_rows /\
  wr_clean (write_file toy_sem toy_registry toy_header (Some Strict) toy_rows) = true.
Proof.
  split; [reflexivity|]. split.
  { intros k t w t' Hb _ Hs _ _. cbn in *. injection Hs as <-. destruct t; [discriminate|]. injection Hb as <-. reflexivity. }
  split; [vm_compute; reflexivity|]. split.
  { repeat constructor; intros H; vm_compute in H; repeat (destruct H as [H|H]; [discriminate|]); exact H. }
  split; [vm_compute; reflexivity|]. split; [reflexivity|]. split.
  { split; [discriminate|]. split; [|reflexivity].
    repeat constructor; intros H; vm_compute in H; repeat (destruct H as [H|H]; [discriminate|]); exact H. }
  split.
  { repeat constructor; intros H; vm_compute in H; repeat (destruct H as [H|H]; [discriminate|]); exact H. }
  split; [|vm_compute; reflexivity].
  unfold toy_rows. repeat (apply Forall_cons; [unfold typed_by; vm_compute; solve_cells|]). apply Forall_nil.
Qed.

(* ... and this is what it says about it: same header records, the layout,
   the same cells (the empty trailing field and the '#z' field included), the
   same text again - by path and from a handle *)
Example demo_layout_outcome :
  forall translate,
    let rt := toy_rt translate in
    run_end (rt_read rt) = EndStop /\
    match run_init (rt_read rt) with
    | Ok rd => hrecs (rd_header rd) = hrecs toy_header /\ rd_scheme rd = Some toy_layout
    | Raise _ => False
    end /\
    map (fun r => cells_of_rec (mcols r)) (run_recs (rt_read rt)) = map (fun r => cells_of_rec (mcols r)) toy_rows /\
    map (fun r => cells_of_rec (mcols r)) toy_rows
    = [ [(t_a, PTyped tt [112]%N); (t_b, PPlain [])]; [(t_a, PTyped tt [113]%N); (t_b, PPlain [35;122]%N)] ] /\
    option_map (@wr_text unit str) (rt_second rt) = Some (wr_text (rt_first rt)).
Proof. intros [|]; vm_compute; repeat split; reflexivity. Qed.

(* ---------- scheme-less column names ---------- *)
Definition empty_header : header :=
  match header_from_lines (@nil (scheme (cls unit))) [] (Some Silent) LgRoot with
  | (_, Ok h) => h
  | _ => header_new None
  end.
Definition plain_rt (names : list str) (line : str) :=
  round_trip_of toy_sem [] toy_key skey_lt empty_header (Some Silent) [toy_rec line (Some names) None] false.

(* harmless: names x, y; fields "#1" and "" *)
Example demo_schemeless_ok :
  let rt := plain_rt [[120]%N; [121]%N] [35;49;9]%N in
  wr_clean (rt_first rt) = true /\
  wr_text (rt_first rt) = [120;9;121;10; 35;49;9;10]%N /\
  match run_init (rt_read rt) with Ok rd => option_map (@s_names unit) (rd_scheme rd) = Some [[120]%N; [121]%N] | Raise _ => False end /\
  map (fun r => cells_of_rec (mcols r)) (run_recs (rt_read rt)) = [[([120]%N, PPlain [35;49]%N); ([121]%N, PPlain [])]] /\
  option_map (@wr_text unit str) (rt_second rt) = Some (wr_text (rt_first rt)).
Proof. vm_compute. repeat split; reflexivity. Qed.

(* the former hazards (fixed in maf-lib, e6be83f): names '#x', 'y' - the column
   line would be read back as a pragma - and 'a<TAB>b', 'c' - three names would
   come back for two fields.  The writer now refuses both: nothing is written,
   the session is not clean, so they are outside the property's premise.
   (The regress seed C02-uncarriable-names re-introduces the defect; the
   check's corpus holds both inputs.) *)
Theorem C02_hash_name_refused :
  let rt := plain_rt [[35;120]%N; [121]%N] [49;9;50]%N in
  wr_clean (rt_first rt) = false /\ wr_text (rt_first rt) = [] /\
  map (fun o => snd o) (wr_adds (rt_first rt)) = [Raise ValueError].
Proof. vm_compute. repeat split; reflexivity. Qed.
Print Assumptions C02_hash_name_refused.

Theorem C02_separator_name_refused :
  let rt := plain_rt [[97;9;98]%N; [99]%N] [49;9;50]%N in
  wr_clean (rt_first rt) = false /\ wr_text (rt_first rt) = [] /\
  map (fun o => snd o) (wr_adds (rt_first rt)) = [Raise ValueError].
Proof. vm_compute. repeat split; reflexivity. Qed.
Print Assumptions C02_separator_name_refused.

(* the side condition of record_fixpoint is needed too: a class whose value
   "one null element" renders as the empty text, which builds the empty list
   (maf-lib: SequenceOfNullableYesOrNo, text 'Null').  The text round-trips,
   the typed value does not.  Signature
   "typed-value-differs/single-null-element-list/layout". *)
Definition hz_sem : colsem unit bool :=     (* true: [Null], false: [] *)
  {| cs_build := fun _ t => match t with [] => Some false | _ => Some true end;
     cs_invalid := fun _ _ => false;
     cs_str := fun _ _ => Some [];
     cs_isinst := fun _ _ => true;
     cs_key_text := fun _ _ => None;
     cs_key_int := fun _ _ => None |}.
Definition hz_layout : scheme (cls unit) :=
  {| s_version := t_v1; s_annot := t_v1; s_cols := [(t_a, CTyped tt)]; s_norestr := false |}.
Definition hz_header : header :=
  match header_from_lines [hz_layout] [hd [] toy_hlines] (Some Silent) LgRoot with
  | (_, Ok h) => h
  | _ => header_new None
  end.
Definition hz_rec : mrec unit bool :=
  match from_line hz_sem [78]%N None (Some hz_layout) None (Some Silent) LgRoot with   (* "N" *)
  | (_, Ok r) => r
  | _ => mrec_new None None
  end.
Theorem C02_value_hazard_refuted :
  let rt := round_trip_of hz_sem [hz_layout] (skey_of hz_sem (fun _ => None)) skey_lt hz_header (Some Strict) [hz_rec] false in
  wr_clean (rt_first rt) = true /\
  cells_of_rec (mcols hz_rec) = [(t_a, PTyped tt true)] /\
  map (fun r => cells_of_rec (mcols r)) (run_recs (rt_read rt)) = [[(t_a, PTyped tt false)]] /\
  option_map (@wr_text unit bool) (rt_second rt) = Some (wr_text (rt_first rt)).
Proof. vm_compute. repeat split; reflexivity. Qed.
Print Assumptions C02_value_hazard_refuted.

(* `typed_by` asks that a stored value be one its class BUILDS.  A column
   object constructed directly (MafColumnRecord subclass constructor) can hold
   a value that validation accepts and that renders like a built one, but that
   parsing never produces (maf-lib: StringOrIntegerColumn('Chromosome', '01')
   holds the str '01', which is written as 01 and read back as the int 1;
   NullableStringColumn(..., '') -> None; EntrezGeneId(..., 0) -> None).  The
   writer accepts it, the text round-trips, the typed value does not.  Known
   findings "typed-value-differs/api-built-noncanonical/<class>".  Here: a class
   whose values carry a tag (how they came to be) next to their text; parsing
   always tags `true`. *)
Definition api_sem : colsem unit (bool * str) :=
  {| cs_build := fun _ t => Some (true, t);
     cs_invalid := fun _ _ => false;
     cs_str := fun _ w => Some (snd w);
     cs_isinst := fun _ _ => true;
     cs_key_text := fun _ _ => None;
     cs_key_int := fun _ _ => None |}.
(* the record a caller builds with the constructor: column a holds (false, "01") *)
Definition api_rec : mrec unit (bool * str) :=
  {| mline := None; mcols := canon_rec [(t_a, PTyped tt (false, [48;49]%N))]; merrs := []; mmode := Silent |}.
Theorem C02_api_built_value_refuted :
  let rt := round_trip_of api_sem [hz_layout] (skey_of api_sem (fun _ => None)) skey_lt hz_header (Some Strict) [api_rec] false in
  wr_clean (rt_first rt) = true /\
  wr_text (rt_first rt) = [35;118;101;114;115;105;111;110;32;118;49;10; 97;10; 48;49;10]%N /\
  cells_of_rec (mcols api_rec) = [(t_a, PTyped tt (false, [48;49]%N))] /\
  map (fun r => cells_of_rec (mcols r)) (run_recs (rt_read rt)) = [[(t_a, PTyped tt (true, [48;49]%N))]] /\
  option_map (@wr_text unit (bool * str)) (rt_second rt) = Some (wr_text (rt_first rt)).
Proof. vm_compute. repeat split; reflexivity. Qed.
Print Assumptions C02_api_built_value_refuted.

(* ====================================================================== *)
(* the built-in layouts, with the concrete column model                    *)
(* ====================================================================== *)
(* model/ColsemColumns.v makes the concrete columns (classes resolved by C3
   over the regenerated class table, build / validate / str per defining
   class; float() and uuid.UUID() an oracle `Or`) an instance of `colsem`;
   proofs/FileIOColumns.v discharges `record_fixpoint` for it with C04's field
   fixpoint and the layout premises with sweeps over the 14 layouts built from
   the regenerated definitions (`layouts_ok`: every column class covered by
   C04, names distinct and carriable).  What is left as premises: the oracle
   laws; the header premise (parsed from lines free of CR/LF, its pragmas select
   the layout); the records are what MafRecord.from_line returns without
   validation error under the layout; C04's side condition `no_single_null` (a
   one-element list whose element renders as the empty text only in a column of
   a strict class - i.e. no single-[Null] list in SOMATIC / PHENO, the columns of
   class SequenceOfNullableYesOrNo); the writer accepted everything; the
   records are in the declared order. *)
From Coq Require Import String.
From MafVerif Require Import gen.GenClasses model.Classes model.Columns model.Layouts model.ColsemColumns
  proofs.LayoutFacts proofs.RenderFacts proofs.FileIOColumns.

Theorem C02_round_trip_builtin_layouts :
  forall (Or : oracles), oracle_laws Or ->
  forall (registry : list (scheme (cls cref))) (K : Type)
         (key_of : sorder -> list str -> rec (payload cref pyval) -> res K) (key_lt : K -> K -> bool)
         (l : layout) hl m0 lg0 l0 (h : header) (m : mode) (rs : list (mrec cref pyval)) (translate : bool),
    In l layouts_ok ->
    let sem := columns_sem class_table Or in
    let s := scheme_of_layout l in
    header_from_lines registry hl m0 lg0 = (l0, Ok h) -> Forall no_crlf hl ->
    h_scheme registry (hrecs h) = Ok (Some s) ->
    Forall (parsed_under class_table Or s) rs -> Forall (no_single_null class_table) rs ->
    let w1 := write_file sem registry h (Some m) rs in
    wr_clean w1 = true ->
    in_declared_order key_of key_lt (hrecs h)
      (map (fun v => reread_view sem s (mcols v)) (accepted_records w1)) ->
    let rt := round_trip_of sem registry key_of key_lt h (Some m) rs translate in
    exists rd w2,
      run_init (rt_read rt) = Ok rd /\ run_end (rt_read rt) = EndStop /\
      hrecs (rd_header rd) = hrecs h /\ rd_scheme rd = Some s /\
      Forall2 (fun r' r => cells_of_rec (mcols r') = cells_of_rec (mcols r) /\ merrs r' = [])
              (run_recs (rt_read rt)) rs /\
      Forall2 (fun r' v => map (@slot_view cref pyval) (rlist (mcols r')) = map (@slot_view cref pyval) (rlist (mcols v)) /\
                           record_text sem r' = record_text sem v)
              (run_recs (rt_read rt)) (accepted_records w1) /\
      rt_second rt = Some w2 /\ wr_clean w2 = true /\ wr_text w2 = wr_text w1.
Proof.
  intros Or HO registry K key_of key_lt l.
  exact (round_trip_builtin_layouts Or HO registry K key_of key_lt l).
Qed.
Print Assumptions C02_round_trip_builtin_layouts.

(* the side condition is vacuous for every class but one, and the layouts are
   the 14 built from the regenerated definitions *)
Example builtin_layout_count : List.length layouts_ok = 14%nat.
Proof. vm_compute. reflexivity. Qed.
