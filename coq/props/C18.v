(* C18 - The sorter leaves no spill files or descriptors behind, even when
   I/O fails.  Property theorems only; proofs are in proofs/SorterWorldFacts.v.

   The theorems are about model/SorterWorld.v: the I/O protocol of
   Sorter.add / __spill / __iter__ / close, _SortedIterator, _MergingIterator
   (repaired code), where each of the nine I/O calls is a step that may fail
   once (single-shot fault schedule: index of the failing call + whether its
   errno is ENOENT).  They hold for EVERY item type, key function, key order,
   codec and sorted()/heapq oracle (no hypothesis on them), every capacity,
   policy, history of operations and fault position.

   First round (below): the resource discipline (b) - after any history,
   with or without a fault, close() until it returns normally leaves no file,
   no descriptor and no open handle.  Second round (end of the file): (a) the
   fault surfaces from the operation in progress, (d) two calls of close()
   suffice, (c) a MafWriter.close that returns normally has written every
   record; plus a refutation of "exactly once" for a close() that succeeds on
   retry.  What stays outside the model is listed in LEVEL_NOTE of
   harness/props/C18.py (kernel, half-written files of a tainted sorter, GC
   other than reference counting, more than one fault, the writer's own
   output handle). *)
From MafVerif Require Import lib.Base model.Sorter model.SorterWorld proofs.SorterWorldFacts.

Section C18.
  Variables A K D : Type.
  Variable keyf : A -> res K.
  Variable lt : K -> K -> bool.
  Variable enc : A -> D.
  Variable dec : D -> res A.
  Variable pick_min : forall X : Type, (X -> X -> bool) -> list X -> option (X * list X).
  Variable eof : bool.   (* a failing read raises EOFError (truncated spill file) instead of OSError *)

  (* every workload (capacity, policy, any history of add / iterate-k-then-
     abandon / close, stopping at the first exception or not), every fault
     position and errno flavour, also no fault at all: after close() has been
     called until it returned normally - which takes at most three calls -
     no spill file, no descriptor, no gzip handle is left *)
  Theorem C18_no_leak_partial :
    forall (c : nat) (al stop : bool) (ops : list (op A)) (f : option (nat * bool)) obs cl w',
      w_workload A K D keyf lt enc dec pick_min eof c al stop ops f = (obs, cl, w') ->
      clean D w' /\ (length cl <= 3)%nat /\ last cl (Some AssertionError) = None.
  Proof. exact (no_leak A K D keyf lt enc dec pick_min eof). Qed.

  (* at every point between two operations of any history, faulted or not:
     the files on disk are registered for cleanup, the open descriptors are
     registered for cleanup, and no gzip handle is open *)
  Theorem C18_nothing_unregistered_between_operations :
    forall (stop : bool) (ops : list (op A)) (c : nat) (al : bool) (f : option (nat * bool)) obs s' w',
      w_run A K D keyf lt enc dec pick_min eof stop (wnew K D c al) ops (world0 D f) = (obs, s', w') ->
      WI K D s' w'.
  Proof.
    intros stop ops c al f obs s' w' H.
    exact (run_WI A K D keyf lt enc dec pick_min eof stop ops _ _ obs s' w' (WI_new K D c al f) H).
  Qed.

  (* one call of close(): every registered descriptor is released whatever
     fails; if it returns normally nothing is left and nothing stays registered *)
  Theorem C18_close_releases :
    forall (s : wsorter K D) (w : world D) e s' w',
      WI K D s w -> w_close K D s w = (e, s', w') ->
      fds D w' = [] /\ (e = None -> clean D w' /\ wpaths K D s' = []).
  Proof.
    intros s w e s' w' I H.
    destruct (close_spec K D s w e s' w' I H) as (_ & F & _ & _ & C & _). split; assumption.
  Qed.
End C18.
Print Assumptions C18_no_leak_partial.
Print Assumptions C18_nothing_unregistered_between_operations.
Print Assumptions C18_close_releases.

(* ---------- non-vacuity: 5 records, capacity 2, always spill: 44 I/O calls;
   fault-free, then a fault in gzip.open(w) (call 1: the pinned tree leaked a
   file and a descriptor here), in a read of the merge (call 30), in os.close
   (call 38) and in os.remove (call 39, EIO: second close() needed) ---------- *)
Definition zkey (x : Z * Z) : res Z := Ok (fst x).
Definition zenc (x : Z * Z) : Z * Z := x.
Definition zdec (x : Z * Z) : res (Z * Z) := Ok x.
Definition demo_ops : list (op (Z * Z)) :=
  [OpAdd _ (3, 0); OpAdd _ (1, 1); OpAdd _ (2, 2); OpAdd _ (5, 3); OpAdd _ (4, 4); OpIter _ 7 false].
Definition demo (f : option (nat * bool)) :=
  let '(obs, cl, w) := w_workload (Z * Z) Z (Z * Z) zkey Z.ltb zenc zdec leftmost_min false 2 true true demo_ops f in
  (map (fun o => (o_out _ o, map fst (o_items _ o), Z.of_nat (o_files _ o), Z.of_nat (o_open _ o))) obs, cl,
   (Z.of_nat (length (files _ w)), Z.of_nat (length (fds _ w)), Z.of_nat (length (log _ w))), hit _ w).

Example demo_fault_free :
  demo None = ([(OOk, [], 0, 0); (OOk, [], 1, 1); (OOk, [], 1, 1); (OOk, [], 2, 2); (OOk, [], 2, 2);
                (OOk, [1; 2; 3; 4; 5], 3, 3)], [None], (0, 0, 44), None).
Proof. vm_compute. reflexivity. Qed.
Example demo_fault_in_gzip_open :
  demo (Some (1%nat, false)) =
  ([(OOk, [], 0, 0); (ORaise (OSError false), [], 1, 1)], [None], (0, 0, 4), Some COpenW).
Proof. vm_compute. reflexivity. Qed.
Example demo_fault_in_merge_read :
  demo (Some (30%nat, false)) =
  ([(OOk, [], 0, 0); (OOk, [], 1, 1); (OOk, [], 1, 1); (OOk, [], 2, 2); (OOk, [], 2, 2);
    (ORaise (OSError false), [1], 3, 3)], [None], (0, 0, 40), Some CRead).
Proof. vm_compute. reflexivity. Qed.
Example demo_fault_in_os_close :
  snd (fst (fst (demo (Some (38%nat, false))))) = [Some (OSError false); None].
Proof. vm_compute. reflexivity. Qed.
Example demo_fault_in_os_remove :
  (snd (fst (fst (demo (Some (39%nat, false))))), snd (fst (demo (Some (39%nat, false)))))
  = ([Some (OSError false); None], (0, 0, 45)).
Proof. vm_compute. reflexivity. Qed.
Example demo_enoent_in_os_remove_is_tolerated :
  (snd (fst (fst (demo (Some (39%nat, true))))), snd (fst (demo (Some (39%nat, true)))))
  = ([None], (0, 0, 44)).
Proof. vm_compute. reflexivity. Qed.

(* the first descriptor a sorter gets is number 0 (a process without a stdin):
   it is registered as Some 0, and close() releases it like any other *)
Definition one_spill :=
  w_run (Z * Z) Z (Z * Z) zkey Z.ltb zenc zdec leftmost_min false true (wnew Z (Z * Z) 1 true) [OpAdd _ (7, 0)] (world0 _ None).
Example demo_descriptor_zero_registered :
  (fds _ (snd one_spill), wfds _ _ (snd (fst one_spill))) = ([0%nat], [Some 0%nat]).
Proof. vm_compute. reflexivity. Qed.
Example demo_descriptor_zero_closed :
  let '(e, s, w) := w_close Z (Z * Z) (snd (fst one_spill)) (snd one_spill) in (e, fds _ w, length (files _ w)) = (None, [], 0%nat).
Proof. vm_compute. reflexivity. Qed.

(* ======================================================================
   Second round: the clauses that were left to the oracle are now theorems.
   ====================================================================== *)
From Coq Require Import Permutation.
From MafVerif Require Import lib.SorterLib proofs.SorterFacts proofs.SorterWorldFaults proofs.SorterWorldData.

Section C18_faults.
  Variables A K D : Type.
  Variable keyf : A -> res K.
  Variable lt : K -> K -> bool.
  Variable enc : A -> D.
  Variable dec : D -> res A.
  Variable pick_min : forall X : Type, (X -> X -> bool) -> list X -> option (X * list X).
  Variable eof : bool.   (* a failing read raises EOFError (truncated spill file) instead of OSError *)

  (* (a) Sorter: in every state reachable by any history of add / iterate-k-
     then-abandon / close from a fresh sorter, under any fault schedule: the
     operation during which the scheduled call fails (the schedule is pending
     before it and consumed after it) raises OSError with the scheduled errno -
     whether the operation is an add, an iteration or a close; in the EOF
     flavour of the schedule (a read of a truncated spill file raises
     EOFError) the iteration raises that exception instead: it is never turned
     into "end of file" - with the one exception the code documents: ENOENT from os.remove inside close(), after
     which close() returns normally. *)
  Theorem C18_fault_surfaces :
    forall (c : nat) (al : bool) (f : option (nat * bool)) (s : wsorter K D) (w : world D)
           (o : op A) out ys s' w' (eno : bool),
      reachable A K D keyf lt enc dec pick_min eof c al f s w ->
      w_step A K D keyf lt enc dec pick_min eof s o w = (out, ys, s', w') ->
      fires D w w' eno ->
      out = ORaise (OSError eno) \/
      (eof = true /\ (exists p k, o = OpIter A p k) /\ out = ORaise PlainException) \/
      (eno = true /\ o = OpClose A /\ hit D w' = Some COsRemove /\ out = OOk).
  Proof.
    intros c al f s w o out ys s' w' eno R.
    exact (step_surfaces A K D keyf lt enc dec pick_min eof s o w out ys s' w' eno
             (reachable_WI2 A K D keyf lt enc dec pick_min eof c al f s w R)).
  Qed.

  (* nothing but the injected fault makes close() fail: without a pending
     fault, close() of any reachable sorter returns normally *)
  Theorem C18_close_fails_only_by_fault :
    forall (c : nat) (al : bool) (f : option (nat * bool)) (s : wsorter K D) (w : world D) e s' w',
      reachable A K D keyf lt enc dec pick_min eof c al f s w ->
      fault D w = None -> w_close K D s w = (e, s', w') -> e = None.
  Proof.
    intros c al f s w e s' w' R.
    exact (close_without_fault K D s w e s' w' (reachable_WI2 A K D keyf lt enc dec pick_min eof c al f s w R)).
  Qed.

  (* (d) close() until it returns normally: two calls suffice, for every
     workload and fault position (with C18_no_leak_partial: and then nothing
     is left) *)
  Theorem C18_two_closes_suffice :
    forall (c : nat) (al stop : bool) (ops : list (op A)) (f : option (nat * bool)) obs cl w',
      w_workload A K D keyf lt enc dec pick_min eof c al stop ops f = (obs, cl, w') ->
      (length cl <= 2)%nat.
  Proof. exact (two_closes A K D keyf lt enc dec pick_min eof). Qed.

  (* (a) MafWriter with a sorter: `writer += record` and writer.close() report
     the fault, in every state reachable by any sequence of writes and closes *)
  Theorem C18_writer_add_fault_surfaces :
    forall (wr : wwriter A K D) x (w : world D) o wr' w' (eno : bool),
      wr_add A K D keyf lt enc pick_min wr x w = (o, wr', w') -> fires D w w' eno ->
      o = ORaise (OSError eno).
  Proof. exact (wr_add_surfaces A K D keyf lt enc pick_min). Qed.

  Theorem C18_writer_close_fault_surfaces :
    forall (c : nat) (f : option (nat * bool)) (wr : wwriter A K D) (w : world D) o wr' w' (eno : bool),
      wr_reachable A K D keyf lt enc dec pick_min eof c f wr w ->
      wr_close A K D keyf lt dec pick_min eof wr w = (o, wr', w') -> fires D w w' eno ->
      o = ORaise (OSError eno) \/ (eof = true /\ o = ORaise PlainException) \/
      (eno = true /\ hit D w' = Some COsRemove /\ o = OOk).
  Proof.
    intros c f wr w o wr' w' eno R.
    exact (wr_close_surfaces A K D keyf lt dec pick_min eof wr w o wr' w' eno
             (wr_reachable_WI2 A K D keyf lt enc dec pick_min eof c f wr w R)).
  Qed.
End C18_faults.
Print Assumptions C18_fault_surfaces.
Print Assumptions C18_close_fails_only_by_fault.
Print Assumptions C18_two_closes_suffice.
Print Assumptions C18_writer_add_fault_surfaces.
Print Assumptions C18_writer_close_fault_surfaces.

Section C18_writer_data.
  Variables A K D : Type.
  Variable keyf : A -> res K.
  Variable lt : K -> K -> bool.
  Variable enc : A -> D.
  Variable dec : D -> res A.
  Variable pick_min : forall X : Type, (X -> X -> bool) -> list X -> option (X * list X).
  Variable eof : bool.   (* a failing read raises EOFError (truncated spill file) instead of OSError *)
  (* the hypotheses of C07 *)
  Hypothesis lt_swo : swo K lt.
  Hypothesis pick_ok : pick_contract pick_min.
  Hypothesis codec_ok : codec_contract A K D keyf lt enc dec.

  (* (c) for every capacity, every list of records and every fault schedule:
     write the records (`oks xs ao` = those whose `writer += record` returned
     normally), then call close() any number of times; whenever a call returns
     normally - the first one, or one after any number of failed ones - the
     output contains the rendering of every record written.  (After a failed
     spill the sorter is tainted and close() is not modelled further: the
     model never reports OOk there.  On /repo such a writer keeps raising, or
     - when it re-reads its records leniently - may get through on retry; those
     runs are judged on the real library by the oracle of the plugin only.) *)
  Theorem C18_writer_output_complete :
    forall (c : nat) (f : option (nat * bool)) (xs : list A) ao wr w wra wa wr' w',
      wr_adds A K D keyf lt enc pick_min (wr_new A K D c) xs (world0 D f) = (ao, wr, w) ->
      closes A K D keyf lt dec pick_min eof wr w wra wa ->
      wr_close A K D keyf lt dec pick_min eof wra wa = (OOk, wr', w') ->
      incl (map enc (oks A xs ao)) (map enc (wout A K D wr')).
  Proof. exact (writer_complete A K D keyf lt enc dec pick_min eof lt_swo pick_ok codec_ok). Qed.

  (* when every write and the first close() return normally the output is
     exactly the records written: a permutation of their renderings, each
     record being the decoding of its own text *)
  Theorem C18_writer_output_exact_when_first_close_succeeds :
    forall (c : nat) (f : option (nat * bool)) (xs : list A) ao wr w wr' w',
      wr_adds A K D keyf lt enc pick_min (wr_new A K D c) xs (world0 D f) = (ao, wr, w) ->
      Forall (fun o => o = OOk) ao ->
      wr_close A K D keyf lt dec pick_min eof wr w = (OOk, wr', w') ->
      Permutation (map enc (wout A K D wr')) (map enc xs) /\
      Forall (fun y => dec (enc y) = Ok y) (wout A K D wr').
  Proof. exact (writer_complete_first A K D keyf lt enc dec pick_min eof lt_swo pick_ok codec_ok). Qed.
End C18_writer_data.
Print Assumptions C18_writer_output_complete.
Print Assumptions C18_writer_output_exact_when_first_close_succeeds.

(* "as a permutation" cannot be claimed for a close() that succeeds only on
   retry: 5 records, capacity 2, os.remove of the first spill file failing
   with EIO (call 39).  The first close() has written all five records when
   it raises; the second merges the file that is still registered once more
   and returns normally: seven lines for five records.  Replayed on /repo by
   the corpus case of harness/props/C18.py (writer, fault [39, 0]). *)
Definition retry_recs : list (Z * Z) := [(3, 0); (1, 1); (2, 2); (5, 3); (4, 4)].
Definition retry_run :=
  wr_workload (Z * Z) Z (Z * Z) zkey Z.ltb zenc zdec leftmost_min false 2 retry_recs (Some (39%nat, false)).
Example retry_adds : fst (fst (fst retry_run)) = [OOk; OOk; OOk; OOk; OOk].
Proof. vm_compute. reflexivity. Qed.
Example retry_closes : snd (fst (fst retry_run)) = [ORaise (OSError false); OOk].
Proof. vm_compute. reflexivity. Qed.
Example retry_output_lines : length (wout _ _ _ (snd (fst retry_run))) = 7%nat.
Proof. vm_compute. reflexivity. Qed.
(* witness: capacity 2, retry_recs, fault (39, EIO) = retry_run *)
Theorem C18_writer_retry_duplicates_refuted :
  Forall (fun o => o = OOk) (fst (fst (fst retry_run))) /\
  snd (fst (fst retry_run)) = [ORaise (OSError false); OOk] /\
  ~ Permutation (map zenc (wout _ _ _ (snd (fst retry_run)))) (map zenc retry_recs).
Proof.
  rewrite retry_adds, retry_closes. split; [repeat constructor |]. split; [reflexivity |].
  intros P. apply Permutation_length in P. rewrite !map_length, retry_output_lines in P.
  unfold retry_recs in P. simpl in P. discriminate.
Qed.
Print Assumptions C18_writer_retry_duplicates_refuted.

(* the EOF flavour of the schedule: the 31st call (a read during the merge)
   hits the end of a truncated spill file.  The iteration raises (PlainException
   stands for EOFError), after returning the one record it had; it does not
   take the damage for the end of the file; close() then cleans up. *)
Definition demo_eof :=
  let '(obs, cl, w) := w_workload (Z * Z) Z (Z * Z) zkey Z.ltb zenc zdec leftmost_min true 2 true true demo_ops (Some (30%nat, false)) in
  (map (fun o => (o_out _ o, map fst (o_items _ o))) obs, cl, (Z.of_nat (length (files _ w)), Z.of_nat (length (fds _ w))), hit _ w).
Example demo_truncated_spill_file_surfaces :
  demo_eof = ([(OOk, []); (OOk, []); (OOk, []); (OOk, []); (OOk, []); (ORaise PlainException, [1])],
              [None], (0, 0), Some CRead).
Proof. vm_compute. reflexivity. Qed.

(* ======================================================================
   Third round (a9919d2, aa179b6): Sorter.__iter__ registers its merging
   iterator and closes it in a finally clause; Sorter.close() first closes
   every registered one, and closing a merging iterator attempts every
   reader.  The reference-counting premise is gone for a generator the caller
   still holds: after close() no read handle is open, kept generators or not.
   ====================================================================== *)
Section C18_kept_generators.
  Variables A K D : Type.
  Variable keyf : A -> res K.
  Variable lt : K -> K -> bool.
  Variable enc : A -> D.
  Variable dec : D -> res A.
  Variable pick_min : forall X : Type, (X -> X -> bool) -> list X -> option (X * list X).
  Variable eof : bool.

  (* any history - including iterations pulled a few times and then KEPT by the
     caller (OpIter p true) - any fault schedule: one call of close(), whether
     it raises or not, leaves no read handle and no descriptor open; the
     generators the caller still holds have nothing left open *)
  Theorem C18_close_with_generators_alive :
    forall (c : nat) (al : bool) (f : option (nat * bool)) (s : wsorter K D) (w : world D) e s' w',
      reachable A K D keyf lt enc dec pick_min eof c al f s w ->
      w_close K D s w = (e, s', w') ->
      rhandles D w' = [] /\ fds D w' = [] /\ whandles D w' = [] /\ wmerging K D s' = [].
  Proof.
    intros c al f s w e s' w' R H.
    pose proof (reachable_WI2 A K D keyf lt enc dec pick_min eof c al f s w R) as (I & _).
    destruct (close_spec K D s w e s' w' I H) as ((_ & _ & _ & Wh & _) & Fd & Rh & _).
    split; [exact Rh |]. split; [exact Fd |]. split; [exact Wh |].
    unfold w_close in H. destruct (w_close_merging D (wmerging K D s) w None) as [e0 w0].
    destruct (w_close_loop D (wpaths K D s) (wfds K D s) w0 e0 []) as [[e1 r1] w1]. inversion H; reflexivity.
  Qed.
End C18_kept_generators.
Print Assumptions C18_close_with_generators_alive.

(* it = iter(s); next(it); next(it) with `it` kept, then close() whose first
   reader close fails (call 32): close() raises, every reader has been
   attempted, nothing is open although the generator is still held *)
Definition demo_kept :=
  let '(obs, cl, w) := w_workload (Z * Z) Z (Z * Z) zkey Z.ltb zenc zdec leftmost_min false 2 true false
        [OpAdd _ (3, 0); OpAdd _ (1, 1); OpAdd _ (2, 2); OpAdd _ (5, 3); OpAdd _ (4, 4); OpIter _ 2 true]
        (Some (32%nat, false)) in
  (map (fun o => Z.of_nat (o_open _ o)) obs, cl, (Z.of_nat (length (files _ w)), Z.of_nat (n_open _ w)), hit _ w).
Example demo_kept_generator_close_fails_once :
  demo_kept = ([0; 1; 1; 2; 2; 6], [Some (OSError false); None], (0, 0), Some CCloseR).
Proof. vm_compute. reflexivity. Qed.
