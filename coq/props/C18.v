(* C18 - The sorter leaves no spill files or descriptors behind, even when
   I/O fails.  Property theorems only; proofs are in proofs/SorterWorldFacts.v.

   The theorems are about model/SorterWorld.v: the I/O protocol of
   Sorter.add / __spill / __iter__ / close, _SortedIterator, _MergingIterator
   (repaired code), where each of the nine I/O calls is a step that may fail
   once (single-shot fault schedule: index of the failing call + whether its
   errno is ENOENT).  They hold for EVERY item type, key function, key order,
   codec and sorted()/heapq oracle (no hypothesis on them), every capacity,
   policy, history of operations and fault position.

   Level: partial.  What is proved here is the resource discipline (b):
   "after any history, with or without a fault, close() until it returns
   normally leaves no file, no descriptor and no open handle, and it returns
   normally within three calls".  NOT proved in Coq (checked on /repo by the
   oracle of harness/props/C18.py at every fault position of small workloads,
   and by the model-vs-/repo correspondence of the same runs):
     (a) the injected fault surfaces as OSError from the operation in
         progress (except ENOENT in os.remove during close);
     (b') two calls of close() suffice (the proof below gives three: it does
         not use that a registered descriptor is always still open);
     (c) if MafWriter.close returns normally the output holds every record.
   Full statement kept for reference:
     forall workload fault, let (outcome, world) := run workload fault in
       (fault_hit -> surfaced outcome) /\ clean (close_until_ok world) /\ closes <= 2
       /\ (writer_close_ok -> every written record is in the output). *)
From MafVerif Require Import lib.Base model.Sorter model.SorterWorld proofs.SorterWorldFacts.

Section C18.
  Variables A K D : Type.
  Variable keyf : A -> res K.
  Variable lt : K -> K -> bool.
  Variable enc : A -> D.
  Variable dec : D -> res A.
  Variable pick_min : forall X : Type, (X -> X -> bool) -> list X -> option (X * list X).

  (* every workload (capacity, policy, any history of add / iterate-k-then-
     abandon / close, stopping at the first exception or not), every fault
     position and errno flavour, also no fault at all: after close() has been
     called until it returned normally - which takes at most three calls -
     no spill file, no descriptor, no gzip handle is left *)
  Theorem C18_no_leak_partial :
    forall (c : nat) (al stop : bool) (ops : list (op A)) (f : option (nat * bool)) obs cl w',
      w_workload A K D keyf lt enc dec pick_min c al stop ops f = (obs, cl, w') ->
      clean D w' /\ (length cl <= 3)%nat /\ last cl (Some AssertionError) = None.
  Proof. exact (no_leak A K D keyf lt enc dec pick_min). Qed.

  (* at every point between two operations of any history, faulted or not:
     the files on disk are registered for cleanup, the open descriptors are
     registered for cleanup, and no gzip handle is open *)
  Theorem C18_nothing_unregistered_between_operations :
    forall (stop : bool) (ops : list (op A)) (c : nat) (al : bool) (f : option (nat * bool)) obs s' w',
      w_run A K D keyf lt enc dec pick_min stop (wnew K D c al) ops (world0 D f) = (obs, s', w') ->
      WI K D s' w'.
  Proof.
    intros stop ops c al f obs s' w' H.
    exact (run_WI A K D keyf lt enc dec pick_min stop ops _ _ obs s' w' (WI_new K D c al f) H).
  Qed.

  (* one call of close(): every registered descriptor is released whatever
     fails; if it returns normally nothing is left and nothing stays registered *)
  Theorem C18_close_releases :
    forall (s : wsorter K D) (w : world D) e s' w',
      WI K D s w -> w_close K D s w = (e, s', w') ->
      fds D w' = [] /\ (e = None -> clean D w' /\ wpaths K D s' = []).
  Proof.
    intros s w e s' w' I H.
    destruct (close_spec K D s w e s' w' I H) as (_ & F & _ & C & _). split; assumption.
  Qed.
End C18.
Print Assumptions C18_no_leak_partial.
Print Assumptions C18_nothing_unregistered_between_operations.
Print Assumptions C18_close_releases.

(* ---------- non-vacuity: 5 records, capacity 2, always spill: 44 I/O calls;
   fault-free, then a fault in gzip.open(w) (call 1: the pinned tree leaked a
   file and a descriptor here), in a read of the merge (call 30), in os.close
   (call 38) and in os.remove (call 39, EIO: second close() needed) ---------- *)
Definition zkey (x : Z * Z) : res Z := Ok (fst x).
Definition zenc (x : Z * Z) : Z * Z := x.
Definition zdec (x : Z * Z) : res (Z * Z) := Ok x.
Definition demo_ops : list (op (Z * Z)) :=
  [OpAdd _ (3, 0); OpAdd _ (1, 1); OpAdd _ (2, 2); OpAdd _ (5, 3); OpAdd _ (4, 4); OpIter _ 7].
Definition demo (f : option (nat * bool)) :=
  let '(obs, cl, w) := w_workload (Z * Z) Z (Z * Z) zkey Z.ltb zenc zdec leftmost_min 2 true true demo_ops f in
  (map (fun o => (o_out _ o, map fst (o_items _ o), Z.of_nat (o_files _ o), Z.of_nat (o_open _ o))) obs, cl,
   (Z.of_nat (length (files _ w)), Z.of_nat (length (fds _ w)), Z.of_nat (length (log _ w))), hit _ w).

Example demo_fault_free :
  demo None = ([(OOk, [], 0, 0); (OOk, [], 1, 1); (OOk, [], 1, 1); (OOk, [], 2, 2); (OOk, [], 2, 2);
                (OOk, [1; 2; 3; 4; 5], 3, 3)], [None], (0, 0, 44), None).
Proof. vm_compute. reflexivity. Qed.
Example demo_fault_in_gzip_open :
  demo (Some (1%nat, false)) =
  ([(OOk, [], 0, 0); (ORaise (OSError false), [], 1, 1)], [None], (0, 0, 4), Some COpenW).
Proof. vm_compute. reflexivity. Qed.
Example demo_fault_in_merge_read :
  demo (Some (30%nat, false)) =
  ([(OOk, [], 0, 0); (OOk, [], 1, 1); (OOk, [], 1, 1); (OOk, [], 2, 2); (OOk, [], 2, 2);
    (ORaise (OSError false), [1], 3, 3)], [None], (0, 0, 37), Some CRead).
Proof. vm_compute. reflexivity. Qed.
Example demo_fault_in_os_close :
  snd (fst (fst (demo (Some (38%nat, false))))) = [Some (OSError false); None].
Proof. vm_compute. reflexivity. Qed.
Example demo_fault_in_os_remove :
  (snd (fst (fst (demo (Some (39%nat, false))))), snd (fst (demo (Some (39%nat, false)))))
  = ([Some (OSError false); None], (0, 0, 45)).
Proof. vm_compute. reflexivity. Qed.
Example demo_enoent_in_os_remove_is_tolerated :
  (snd (fst (fst (demo (Some (39%nat, true))))), snd (fst (demo (Some (39%nat, true)))))
  = ([None], (0, 0, 44)).
Proof. vm_compute. reflexivity. Qed.

(* the first descriptor a sorter gets is number 0 (a process without a stdin):
   it is registered as Some 0, and close() releases it like any other *)
Definition one_spill :=
  w_run (Z * Z) Z (Z * Z) zkey Z.ltb zenc zdec leftmost_min true (wnew Z (Z * Z) 1 true) [OpAdd _ (7, 0)] (world0 _ None).
Example demo_descriptor_zero_registered :
  (fds _ (snd one_spill), wfds _ _ (snd (fst one_spill))) = ([0%nat], [Some 0%nat]).
Proof. vm_compute. reflexivity. Qed.
Example demo_descriptor_zero_closed :
  let '(e, s, w) := w_close Z (Z * Z) (snd (fst one_spill)) (snd one_spill) in (e, fds _ w, length (files _ w)) = (None, [], 0%nat).
Proof. vm_compute. reflexivity. Qed.
