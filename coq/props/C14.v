(* C14 - Scheme resolution and inheritance produce a unique, order-independent
   layout.  Property theorems only; proofs are in proofs/Scheme*.v.

   [mixok extra base] says whether python can synthesise the class
   type(name, (extra, base), {}) that extend_class asks for (C3 linearisation;
   the column cluster owns its semantics).  Every theorem holds for every
   such predicate.  The clause "a redefined column enforces both the inherited
   and the added constraint" is about what the synthesised class validates and
   is not part of this file (it is false for arbitrary class pairs - method
   override, not conjunction - and is recorded as a known finding; the check's
   oracle tests it for the override kind the library ships, RequireNullValue).

   [clean_defs ds]: every definition declares each of its columns once.  The
   specification's "new columns in declaration order" is only meaningful
   then; the order-independence theorem and the rejection theorems for
   duplicate annotations, unknown bases and cycles do not need it. *)
From Coq Require Import Permutation.
From MafVerif Require Import lib.Base lib.Str model.SchemeFactory spec.SpecSchemes
     proofs.SchemeFactoryFacts proofs.SchemeBuildFacts proofs.SchemeSpecFacts.

(* (a) a well-formed definition set is built, one scheme per definition, each
   with the version, annotation and layout the specification gives it *)
Theorem C14_layout :
  forall mixok ds, clean_defs ds -> wf_defs mixok ds ->
  exists m, build_schemes mixok ds = Ok m /\
    Permutation (map fst m) (map dannot ds) /\
    forall d, In d ds -> exists sc, assoc (dannot d) m = Some sc /\ expected_scheme mixok ds d sc.
Proof. exact build_wf_layout. Qed.
Print Assumptions C14_layout.

(* (c) the outcome does not depend on the load order: for EVERY definition
   list (well-formed or not, clean or not) any two orders either both fail or
   give the same annotation -> scheme map *)
Theorem C14_order_independent :
  forall mixok ds ds', Permutation ds ds' ->
  same_outcome (build_schemes mixok ds) (build_schemes mixok ds').
Proof. exact build_perm. Qed.
Print Assumptions C14_order_independent.

(* (b) an ill-formed set is rejected in every order *)
Theorem C14_ill_formed :
  forall mixok ds ds', clean_defs ds -> ~ wf_defs mixok ds -> Permutation ds ds' ->
  exists e, build_schemes mixok ds' = Raise e.
Proof. exact build_ill_formed. Qed.
Print Assumptions C14_ill_formed.

(* ... and so is each named kind of ill-formedness *)
Theorem C14_duplicate_annotation_rejected :
  forall mixok ds ds', duplicate_annotation ds -> Permutation ds ds' ->
  exists e, build_schemes mixok ds' = Raise e.
Proof. exact duplicate_annotation_rejected. Qed.
Print Assumptions C14_duplicate_annotation_rejected.

Theorem C14_unknown_base_rejected :
  forall mixok ds ds', unknown_base ds -> Permutation ds ds' ->
  exists e, build_schemes mixok ds' = Raise e.
Proof. exact unknown_base_rejected. Qed.
Print Assumptions C14_unknown_base_rejected.

Theorem C14_inheritance_cycle_rejected :
  forall mixok ds ds', inheritance_cycle ds -> Permutation ds ds' ->
  exists e, build_schemes mixok ds' = Raise e.
Proof. exact inheritance_cycle_rejected. Qed.
Print Assumptions C14_inheritance_cycle_rejected.

(* a filtered column that does not exist after combination, or a
   redefinition whose class cannot be synthesised *)
Theorem C14_bad_combination_rejected :
  forall mixok ds ds', clean_defs ds -> bad_combination mixok ds -> Permutation ds ds' ->
  exists e, build_schemes mixok ds' = Raise e.
Proof. exact bad_combination_rejected. Qed.
Print Assumptions C14_bad_combination_rejected.

(* in particular a root definition's filter is applied and checked *)
Theorem C14_root_filter_missing_rejected :
  forall mixok ds ds' d, clean_defs ds -> In d ds -> root_filter_missing d -> Permutation ds ds' ->
  exists e, build_schemes mixok ds' = Raise e.
Proof. exact root_filter_missing_rejected. Qed.
Print Assumptions C14_root_filter_missing_rejected.

(* an unknown column type (or a column entry of the wrong length) stops the
   loading of the files, wherever the file is in the list *)
Theorem C14_unknown_type_rejected :
  forall fs types filenames f j c e,
    In f filenames -> fs f = FJson j -> In c (jcolumns j) -> load_column types c = Raise e ->
    exists e', load_all_scheme_data fs types filenames = Raise e'.
Proof. exact load_bad_column_rejected. Qed.
Print Assumptions C14_unknown_type_rejected.

Theorem C14_unknown_type_is_bad_column :
  forall types n t, mem t types = false ->
    load_column types [n; t] = Raise ValueError /\ forall d, load_column types [n; t; d] = Raise ValueError.
Proof. exact load_column_unknown_type. Qed.
Print Assumptions C14_unknown_type_is_bad_column.

(* the layout rule itself, read off the specification: names of a derived
   layout are the base names in base order followed by the new names in
   declaration order, minus the filtered ones *)
Theorem C14_derived_layout_names :
  forall mixok base extras filtered r,
    spec_combine mixok base extras filtered = Some r ->
    map fst r = filter (fun k => negb (match filtered with Some fl => mem k fl | None => false end))
                       (map fst base ++ filter (fun k => negb (mem k (map fst base))) (map cname extras)).
Proof. exact spec_combine_names. Qed.
Print Assumptions C14_derived_layout_names.

(* a redefined column keeps its base position and gets the class synthesised
   from (extra, base) *)
Theorem C14_redefinition_keeps_position :
  forall mixok base extras r i k bc e,
    spec_combine mixok base extras None = Some r ->
    nth_error base i = Some (k, bc) ->
    find (fun e => str_eqb (cname e) k) extras = Some e ->
    exists c, nth_error r i = Some (k, c) /\ ccls c = CMix (ccls e) (ccls bc) /\ cdesc c = cdesc e.
Proof. exact spec_combine_redefined. Qed.
Print Assumptions C14_redefinition_keeps_position.

(* the model's combine_columns is the specification's combination *)
Theorem C14_combine_columns_is_spec :
  forall mixok base extras filtered,
    NoDup (map cname extras) -> NoDup (map fst base) ->
    match combine_columns mixok base extras filtered with
    | Ok r => spec_combine mixok base extras filtered = Some r
    | Raise _ => spec_combine mixok base extras filtered = None
    end.
Proof. exact combine_spec. Qed.
Print Assumptions C14_combine_columns_is_spec.

(* each version/annotation pair resolves to at most one scheme *)
Theorem C14_one_scheme_per_pair :
  forall mixok types fs builtins extra l,
    load_all_schemes mixok types fs builtins extra = Ok l -> NoDup (map pair_of l).
Proof. exact load_all_schemes_one_per_pair. Qed.
Print Assumptions C14_one_scheme_per_pair.

(* the fuel of the work-list loop never decides an outcome *)
Theorem C14_fuel_suffices :
  forall mixok ds, build_schemes mixok ds <> Raise FUEL_EXHAUSTED.
Proof. exact build_never_exhausts_fuel. Qed.
Print Assumptions C14_fuel_suffices.

(* ---------- non-vacuity ---------- *)
Definition nm (n : N) : str := [n].
Definition col (n : N) (t : N) : column := {| cname := nm n; ccls := CSrc (nm t); cdesc := [] |}.
Definition all_ok : cls -> cls -> bool := fun _ _ => true.
(* root r: columns a b c, filters c;  m extends r: redefines b, adds d, filters a;
   t extends m: adds e, redefines d *)
Definition d_r : datum := {| dversion := nm 1; dannot := nm 82; dextends := None;
  dcolumns := [col 97 1; col 98 2; col 99 3]; dfiltered := Some [nm 99] |}.
Definition d_m : datum := {| dversion := nm 1; dannot := nm 77; dextends := Some (nm 82);
  dcolumns := [col 100 4; col 98 9]; dfiltered := Some [nm 97] |}.
Definition d_t : datum := {| dversion := nm 1; dannot := nm 84; dextends := Some (nm 77);
  dcolumns := [col 101 5; col 100 9]; dfiltered := None |}.
Definition demo : list datum := [d_t; d_r; d_m].

Example demo_layout_t :
  layout all_ok demo d_t =
  Some [ (nm 98, {| cname := nm 98; ccls := CMix (CSrc (nm 9)) (CSrc (nm 2)); cdesc := [] |});
         (nm 100, {| cname := nm 100; ccls := CMix (CSrc (nm 9)) (CSrc (nm 4)); cdesc := [] |});
         (nm 101, col 101 5) ].
Proof. vm_compute. reflexivity. Qed.

Example demo_clean : clean_defs demo.
Proof.
  intros d [H|[H|[H|[]]]]; subst; unfold clean_def; simpl;
    repeat (constructor; [simpl; intuition discriminate|]); constructor.
Qed.

Example demo_wf : wf_defs all_ok demo.
Proof.
  split.
  - simpl. repeat (constructor; [simpl; intuition discriminate|]). constructor.
  - intros d [H|[H|[H|[]]]]; subst; eexists; vm_compute; reflexivity.
Qed.

Example demo_built_in_two_orders :
  exists m1 m2, build_schemes all_ok [d_t; d_r; d_m] = Ok m1 /\ build_schemes all_ok [d_m; d_t; d_r] = Ok m2 /\
                map fst m1 = [nm 82; nm 77; nm 84] /\ map fst m2 = [nm 82; nm 77; nm 84] /\
                assoc (nm 84) m1 = assoc (nm 84) m2.
Proof. eexists. eexists. vm_compute. repeat split. Qed.

(* ill-formed witnesses: a two-cycle, a root filtering an absent column, two
   definitions of one annotation - each raises ValueError *)
Definition d_c1 : datum := {| dversion := nm 1; dannot := nm 65; dextends := Some (nm 66); dcolumns := [col 97 1]; dfiltered := None |}.
Definition d_c2 : datum := {| dversion := nm 1; dannot := nm 66; dextends := Some (nm 65); dcolumns := []; dfiltered := None |}.
Example demo_cycle : inheritance_cycle [d_r; d_c1; d_c2].
Proof.
  exists d_c1, [d_c2; d_c1]. split; [simpl; auto|split; [discriminate|]].
  simpl. repeat split; auto.
Qed.
Example demo_cycle_raises : build_schemes all_ok [d_r; d_c1; d_c2] = Raise ValueError.
Proof. vm_compute. reflexivity. Qed.
Definition d_bad_root : datum := {| dversion := nm 1; dannot := nm 67; dextends := None; dcolumns := [col 97 1]; dfiltered := Some [nm 122] |}.
Example demo_root_filter : root_filter_missing d_bad_root.
Proof. split; [reflexivity|]. exists [nm 122], (nm 122). simpl. repeat split; auto. intuition discriminate. Qed.
Example demo_root_filter_raises : build_schemes all_ok [d_bad_root] = Raise ValueError.
Proof. vm_compute. reflexivity. Qed.
Example demo_duplicate_raises :
  build_schemes all_ok [d_r; d_m; d_r] = Raise ValueError /\ build_schemes all_ok [d_r; d_r; d_m] = Raise ValueError.
Proof. vm_compute. split; reflexivity. Qed.
