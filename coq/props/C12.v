(* C12 - Allele-aware overlap iteration returns exactly the allele-compatible
   records.  Property theorems only; proofs are in proofs/OverlapAllele.v.
   The positional groups themselves are the subject of C11. *)
From Coq Require Import Permutation.
From MafVerif Require Import lib.Base lib.OverlapLib model.Overlap spec.SpecOverlap
     proofs.OverlapFacts proofs.OverlapStreamFacts proofs.OverlapAllele proofs.OverlapOrder
     proofs.OverlapAlleleTop.

Notation o_should_add t := (should_add oref oalts t).
Notation o_accepted t := (accepted oref oalts (rel_of t)).
Notation o_partition t := (partition_first rtruthy oref oalts t []).
Notation o_expand t := (expand oref oalts t).
Notation o_atake c t := (atake rtruthy ccls_cmp ccls_eqb (okey c) oref oalts t).

(* the three relations are =, "share an allele or are equal", "other is
   contained in base", on lists of alleles *)
Theorem C12_relations_characterised :
  forall t base other, compare_by t base other = true <-> rel (rel_of t) base other.
Proof. exact compare_by_spec. Qed.
Print Assumptions C12_relations_characterised.

(* the test applied to a record against a class: same reference allele and the
   selected relation with some member of the class *)
Theorem C12_test_is_compatibility_with_some_member :
  forall t items other, o_should_add t items other = true <-> o_accepted t items other.
Proof. intros t. exact (should_add_spec oref oalts t). Qed.
Print Assumptions C12_test_is_compatibility_with_some_member.

(* the first slot of a positional group is split greedily (spec.SpecOverlap.greedy):
   every record exactly once (permutation), every class non-empty and an
   order-preserving sub-list of the slot; a joining record was accepted by its
   class as it stood and refused by all earlier classes, a founder was refused
   by every class existing at that moment *)
Theorem C12_first_slot_is_partitioned_greedily :
  forall t s0, Forall (fun x => rtruthy x = true) s0 ->
    let classes := o_partition t s0 in
    greedy oref oalts (rel_of t) [] s0 classes /\
    Permutation (concat classes) s0 /\
    Forall (fun c => c <> [] /\ subseq c s0) classes /\
    (s0 <> [] -> classes <> []).
Proof. intros t. exact (partition_first_spec rtruthy oref oalts t). Qed.
Print Assumptions C12_first_slot_is_partitioned_greedily.

(* one positional group g with a non-empty first slot is returned as exactly
   one allele group per class c of its first slot, in order of creation:
   [c; filter (accepted by c) g[1]; filter (accepted by c) g[2]; ...];
   afterwards the iterator turns to the next positional group *)
Theorem C12_positional_group_is_emitted_class_by_class :
  forall c t st ins' g,
    items_falsy (a_items st) = true ->
    first_nonempty rtruthy ccls_cmp ccls_eqb (okey c) (S (remaining (a_ins st))) (a_ins st) = (ins', Done g) ->
    Forall (fun x => rtruthy x = true) (hd [] g) ->
    let classes := o_partition t (hd [] g) in
    o_atake c t (length classes) st
    = (map (fun cl => Done (o_expand t (tl g) cl)) classes,
       {| a_ins := ins'; a_items := Some []; a_others := tl g |}).
Proof. intros c t. exact (allele_group_emission rtruthy ccls_cmp ccls_eqb (okey c) oref oalts t). Qed.
Print Assumptions C12_positional_group_is_emitted_class_by_class.

(* the slots of the other inputs: nothing that fails the test is returned and
   nothing that passes it is omitted (and the order of the slot is kept) *)
Theorem C12_other_slots_are_filtered_exactly :
  forall t others cl,
    o_expand t others cl = cl :: map (filter (o_should_add t cl)) others /\
    forall slot x, In x (filter (o_should_add t cl) slot) <-> In x slot /\ o_accepted t cl x.
Proof.
  intros t others cl. split; [reflexivity|]. intros slot x.
  rewrite filter_In. rewrite (should_add_spec oref oalts t). reflexivity.
Qed.
Print Assumptions C12_other_slots_are_filtered_exactly.

(* positional groups whose first slot is empty produce nothing: the group the
   allele-aware iterator works on is the first one, in the underlying
   iteration, whose first slot is non-empty *)
Theorem C12_groups_with_empty_first_slot_are_skipped :
  forall c fuel ins ins' g,
    first_nonempty rtruthy ccls_cmp ccls_eqb (okey c) fuel ins = (ins', Done g) ->
    hd [] g <> [] /\
    exists skipped mid,
      run_ok rtruthy ccls_cmp ccls_eqb (okey c) ins skipped mid /\
      Forall (fun g' => g' <> [] /\ hd [] g' = []) skipped /\
      o_next_group c mid = (ins', Done g).
Proof. intros c. exact (first_nonempty_spec rtruthy ccls_cmp ccls_eqb (okey c)). Qed.
Print Assumptions C12_groups_with_empty_first_slot_are_skipped.

(* the whole run, under the hypotheses of C11 (truthy records, known contigs,
   start <= end, every input sorted by the chosen order): with gs the exact
   positional grouping of C11,
     list(LocatableByAlleleOverlapIterator(inputs, overlap_type=t, ...))
   is the concatenation, over the groups g of gs in order, of one allele group
   [class; filter class g[1]; filter class g[2]; ...] per greedy class of g[0]
   (pallele); groups with an empty first slot contribute nothing.  In
   particular every record of the first input is returned exactly once. *)
Theorem C12_whole_run_is_classes_of_each_positional_group :
  forall (c : cfg) (t : otype) (xss : list (list orec)),
    (forall r, In r (concat xss) -> rtruthy r = true) ->
    (forall r, In r (concat xss) -> known_contig c r) ->
    (forall r, In r (concat xss) -> wf_interval rstart rend r) ->
    Forall (sorted_input (fun r => kcls (okeyK c r)) rstart rend (clt ccls_cmp)) xss ->
    exists gs, o_overlap_iter c xss = Done gs /\
               exact_grouping (fun r => kcls (okeyK c r)) rstart rend (clt ccls_cmp) xss gs /\
               o_allele_iter c t xss = Done (pallele rtruthy oref oalts t gs).
Proof. exact allele_iter_concrete. Qed.
Print Assumptions C12_whole_run_is_classes_of_each_positional_group.

(* ---------------- non-vacuity ---------------- *)
Definition al (i s e : Z) (r : N) (alts : list N) : orec :=
  {| rid := i; rtruthy := true; rtumor := Some []; rnormal := Some []; rchr := [99%N]; rstart := s; rend := e;
     oref := [r]; oalts := map (fun a => [a]) alts |}.
Definition demo_cfg : cfg := {| by_barcodes := false; contigs := [] |}.
(* first input: A>C, A>G, A>C,G, C>C at one locus; second input: A>G,C  A>()  A>C (pos 6)  and a far record *)
Definition demo_inputs : list (list orec) :=
  [[al 0 5 5 65 [67]; al 1 5 5 65 [71]; al 2 5 6 65 [67; 71]; al 3 5 7 67 [67]];
   [al 4 5 5 65 [71; 67]; al 5 5 5 65 []; al 6 6 6 65 [67]; al 7 20 21 65 [67]]]%N.
Definition ids (o : outcome (list (list (list orec)))) : list (list (list Z)) :=
  match o with Done gs => map (map (map rid)) gs | _ => [[[-1]]] end.
Example demo_equality :
  ids (o_allele_iter demo_cfg Equality demo_inputs) = [[[0]; [6]]; [[1]; []]; [[2]; []]; [[3]; []]].
Proof. vm_compute. reflexivity. Qed.
Example demo_intersects :
  ids (o_allele_iter demo_cfg Intersects demo_inputs) = [[[0; 2]; [4; 6]]; [[1]; [4]]; [[3]; []]].
Proof. vm_compute. reflexivity. Qed.
Example demo_subset :
  ids (o_allele_iter demo_cfg Subset demo_inputs) = [[[0]; [5; 6]]; [[1]; [5]]; [[2]; [4; 5; 6]]; [[3]; []]].
Proof. vm_compute. reflexivity. Qed.
