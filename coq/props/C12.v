(* C12 - placeholder while the proofs are being built *)
From MafVerif Require Import lib.Base model.Overlap.
