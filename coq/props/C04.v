(* C04 - Rendering a parsed record is a canonical fixpoint that preserves its values.
   Property theorems only; proofs in proofs/RenderFacts.v (fields, all texts, per
   resolved class) and proofs/RenderFacts2.v (lines, sweeps over the regenerated
   tables).  float()/uuid.UUID() are host oracles; their laws (`oracle_laws`:
   repr round-trips, '' is not a number/uuid, every int literal is a float
   literal) are explicit hypotheses, not axioms. *)
From Coq Require Import String.
From MafVerif Require Import lib.Base lib.Str lib.PyInt gen.GenClasses gen.GenEnums
     model.Classes model.Columns model.Layouts model.RecordOps model.ColRecord
     spec.SpecLayouts proofs.LayoutFacts proofs.ColumnFacts proofs.RenderFacts proofs.RenderFacts2.
Open Scope string_scope.

(* (1) Field level, every text.  `class_strict_ok r` is a boolean on the resolved
   class (method chains from the C3 MRO, null dictionary, enum, element class):
   plain columns; text / nullable text / DNA; integers with any bounds and null;
   Entrez id; transcript strand; float and UUID (oracle laws); Canonical; Boolean;
   text-or-integer; text-integer-or-float; every enumeration column (incl. the
   capitalising NullableYesOrNo / NullableYOrN / PickColumn / YesNoOrUnknown);
   lists of text, integers or enumeration members none of which prints as '';
   and RequireNullValue mixed over any of these.
   If the text t is accepted with value v (build ok, validate ok, no TAB/CR/LF in
   the rendering) then: v renders to some t' (never an exception); t' has no
   TAB/CR/LF; t' is accepted again with the SAME value v; whatever t' parses to
   renders to t' again; and a null value renders as the preferred null spelling
   ('' if '' is a null key, else the first key). *)
Theorem C04_field_fixpoint :
  forall (Or : oracles), oracle_laws Or ->
  forall (r : rcls) (t : str) (v : pyval),
    class_strict_ok r = true -> field_outcome Or r t = Valid v ->
    exists t', col_str r v = Ok t' /\ contains_sep t' = false /\ field_outcome Or r t' = Valid v /\
               (in_null_values (r_self r) v = true -> t' = preferred_null (r_self r)).
Proof. exact field_fixpoint_strict. Qed.
Print Assumptions C04_field_fixpoint.

(* the fixpoint clause spelled out *)
Theorem C04_rendering_renders_to_itself :
  forall (Or : oracles) (r : rcls) (v : pyval) (t' : str),
    col_str r v = Ok t' -> field_outcome Or r t' = Valid v ->
    forall v', field_outcome Or r t' = Valid v' -> v' = v /\ col_str r v' = Ok t'.
Proof. exact fix_at_renders_to_itself. Qed.
Print Assumptions C04_rendering_renders_to_itself.

(* the same for every list class whose element class is text, integer or an
   enumeration (here a member may print as ''), for every accepted value except
   a one-element list whose only element prints as '' *)
Theorem C04_field_fixpoint_lists :
  forall (Or : oracles), oracle_laws Or ->
  forall (r : rcls) (t : str) (v : pyval),
    class_ok r = true -> field_outcome Or r t = Valid v -> single_empty v = false ->
    exists t', col_str r v = Ok t' /\ contains_sep t' = false /\ field_outcome Or r t' = Valid v /\
               (in_null_values (r_self r) v = true -> t' = preferred_null (r_self r)).
Proof. exact field_fixpoint. Qed.
Print Assumptions C04_field_fixpoint_lists.

(* ... and that exception is real: the unconditional statement is FALSE for
   SequenceOfNullableYesOrNo (columns SOMATIC and PHENO).  The text "Null" is
   accepted with the one-element list [Null] (not a null value), which renders
   as '' - and '' is accepted with the different value [] (the null value).
   (Recorded in known_findings.json; reproduced on the implementation by the
   check's corpus.) *)
Theorem C04_seq_nullable_refuted :
  forall (Or : oracles),
    resolve class_table (CSrc "SequenceOfNullableYesOrNo") = Some rseq_nyn /\
    class_ok rseq_nyn = true /\
    field_outcome Or rseq_nyn (s2l "Null") = Valid v_single_null /\
    in_null_values (r_self rseq_nyn) v_single_null = false /\
    col_str rseq_nyn v_single_null = Ok [] /\
    field_outcome Or rseq_nyn [] = Valid (VList []) /\
    in_null_values (r_self rseq_nyn) (VList []) = true /\
    v_single_null <> VList [].
Proof. exact seq_nullable_yes_or_no_refuted. Qed.
Print Assumptions C04_seq_nullable_refuted.

(* every documented domain kind of ColumnFacts.shape (text, nullable text, int
   with bounds/null, Entrez, DNA, nullable DNA, strand, must-be-null over these) *)
Theorem C04_documented_kinds :
  forall (Or : oracles), oracle_laws Or ->
  forall d e t v, shape d = Some e -> fo Or e t = Valid v ->
    exists t', col_str (mk_r e None) v = Ok t' /\ contains_sep t' = false /\ fo Or e t' = Valid v /\
               (in_null_values e v = true -> t' = preferred_null e).
Proof. exact documented_kind_fixpoint. Qed.
Print Assumptions C04_documented_kinds.

(* EVERY column class of the regenerated class table (= get_column_types(): abstract
   bases, StringIntegerOrFloatColumn, plain MafColumnRecord, enum and list classes no
   layout uses, ...) except the refuted SequenceOfNullableYesOrNo is strict, hence
   C04_field_fixpoint applies to it.  (For the abstract EnumColumn /
   SequenceOfValuesColumn no text is ever accepted; MafCustomColumnRecord builds None.) *)
Theorem C04_every_column_class_is_strict :
  forall n, In n (column_class_names class_table ["SequenceOfNullableYesOrNo"]) ->
    exists r, resolve class_table (CSrc n) = Some r /\ class_strict_ok r = true.
Proof. exact column_class_fixpoint. Qed.
Print Assumptions C04_every_column_class_is_strict.

(* ... and so is the class synthesised by mixing RequireNullValue over ANY column class
   (extend_class = type(name, (RequireNullValue, base), {}), resolved by C3), whether or
   not a shipped scheme does so; over SequenceOfNullableYesOrNo too (only [] validates). *)
Theorem C04_every_must_be_null_mix_is_strict :
  forall n, In n (column_class_names class_table ["RequireNullValue"]) ->
    exists r, resolve class_table (CMix (CSrc "RequireNullValue") (CSrc n)) = Some r /\ class_strict_ok r = true.
Proof. exact rnv_mix_fixpoint. Qed.
Print Assumptions C04_every_must_be_null_mix_is_strict.

(* (2) The real layouts.  Every column class of every layout built from the
   regenerated definitions (synthesised RequireNullValue mixins included)
   resolves, by C3 over the regenerated class table, to a custom class for which
   (1) applies; column names are pairwise distinct.  Finite sweep (14 layouts,
   1731 positions) lifted with forallb_forall. *)
Theorem C04_every_layout_column_is_covered :
  forall l, In l layouts_ok ->
    NoDup (map fst (l_cols l)) /\ forallb (col_class_ok class_table) (l_cols l) = true.
Proof. exact layout_hyps. Qed.
Print Assumptions C04_every_layout_column_is_covered.

(* enumerations: the finite part.  For every enumeration of the regenerated
   table and every member: str(member) builds that very member again, and
   contains neither TAB/CR/LF nor ';' ; all enumerations are declared @unique and
   have pairwise distinct values. *)
Theorem C04_enum_members_round_trip :
  forall en i, In en enum_names -> (i < length (enum_members en))%nat ->
    enum_lookup en (enum_value en i) = Ok (VEnum en i) /\
    contains_sep (enum_value en i) = false /\ ~ In SEMI (enum_value en i).
Proof. exact enum_members_round_trip. Qed.
Print Assumptions C04_enum_members_round_trip.
Theorem C04_enums_unique : enum_declared_unique = true.
Proof. exact all_enums_unique. Qed.
Print Assumptions C04_enums_unique.

(* (3) Line level, every line.  A line accepted in Strict mode under a built
   layout (this is exactly what MafSorterCodec.decode and the reader do) yields a
   record r that renders to a line l' which contains no CR/LF, whose TAB-fields
   are the per-column renderings (each free of TAB/CR/LF), and which is accepted
   again yielding the IDENTICAL record r - hence equal values column by column
   and the same rendering l' (fixpoint); every null value sits in l' as the
   column's preferred null spelling.  Side condition: at positions whose class
   is not strict (only SequenceOfNullableYesOrNo, see C04_seq_nullable_refuted)
   the value is not a one-element list printing as ''. *)
Theorem C04_line_fixpoint :
  forall (Or : oracles), oracle_laws Or ->
  forall l ln line r errs,
    In l layouts_ok ->
    from_line class_table Or Strict None (Some (l_cols l)) ln line = Ok (r, errs) ->
    (forall j c, nth_error (rlist r) j = Some (Some c) ->
       (exists nc, nth_error (l_cols l) j = Some nc /\ col_class_strict class_table nc = true)
       \/ single_empty (v_val (cval c)) = false) ->
    exists l',
      rec_str class_table r = Ok l' /\
      existsb is_crlf l' = false /\
      length (split TAB l') = length (rlist r) /\
      (forall j o f, nth_error (rlist r) j = Some o -> nth_error (split TAB l') j = Some f ->
                     slot_str class_table o = Ok f /\ contains_sep f = false) /\
      from_line class_table Or Strict None (Some (l_cols l)) ln l' = Ok (r, []) /\
      (forall j c rr, nth_error (rlist r) j = Some (Some c) -> resolve class_table (v_cls (cval c)) = Some rr ->
                      in_null_values (r_self rr) (v_val (cval c)) = true ->
                      nth_error (split TAB l') j = Some (preferred_null (r_self rr))).
Proof. exact built_layout_line_fixpoint. Qed.
Print Assumptions C04_line_fixpoint.

(* without side condition for layouts all of whose columns are strict *)
Theorem C04_line_fixpoint_strict_layouts :
  forall (Or : oracles), oracle_laws Or ->
  forall l ln line r errs,
    In l layouts_ok -> layout_cols_strict class_table l = true ->
    from_line class_table Or Strict None (Some (l_cols l)) ln line = Ok (r, errs) ->
    exists l',
      rec_str class_table r = Ok l' /\
      existsb is_crlf l' = false /\
      length (split TAB l') = length (rlist r) /\
      (forall j o f, nth_error (rlist r) j = Some o -> nth_error (split TAB l') j = Some f ->
                     slot_str class_table o = Ok f /\ contains_sep f = false) /\
      from_line class_table Or Strict None (Some (l_cols l)) ln l' = Ok (r, []) /\
      (forall j c rr, nth_error (rlist r) j = Some (Some c) -> resolve class_table (v_cls (cval c)) = Some rr ->
                      in_null_values (r_self rr) (v_val (cval c)) = true ->
                      nth_error (split TAB l') j = Some (preferred_null (r_self rr))).
Proof. exact strict_layout_line_fixpoint. Qed.
Print Assumptions C04_line_fixpoint_strict_layouts.

(* ---------- non-vacuity ---------- *)
(* (strict positions, covered positions, all positions) over the 14 built layouts;
   the only class that is covered but not strict *)
Example covered : covered_columns = (1705%nat, 1731%nat, 1731%nat).
Proof. vm_compute. reflexivity. Qed.
Example the_only_non_strict_class : non_strict_classes = [CSrc "SequenceOfNullableYesOrNo"].
Proof. vm_compute. reflexivity. Qed.
Example strict_layouts : strict_layout_names = ["gdc-1.0.0"].
Proof. vm_compute. reflexivity. Qed.

(* of the 48 classes of the regenerated class table the field theorem applies to all
   but three: the two bare mixins that are not column classes at all (not subclasses
   of MafColumnRecord: get_column_types() does not return them) and the refuted class *)
Example non_strict_source_classes :
  map ci_name (filter (fun ci => negb (class_strict_ok (get_rcls (resolve class_table (CSrc (ci_name ci)))))) class_table)
  = ["NullableEmptyStringIsNone"; "NullableEmptyStringIsEmptyList"; "SequenceOfNullableYesOrNo"]
  /\ filter (fun n => negb (is_column_type class_table n)) (map ci_name class_table)
  = ["NullableEmptyStringIsNone"; "NullableEmptyStringIsEmptyList"]
  /\ length (column_class_names class_table ["SequenceOfNullableYesOrNo"]) = 45%nat
  /\ length (column_class_names class_table ["RequireNullValue"]) = 45%nat.
Proof. vm_compute. repeat split; reflexivity. Qed.

(* the oracle laws are satisfiable: an oracle that knows two floats and one uuid *)
Definition O_demo : oracles :=
  {| fval := fun t => if str_eqb t (s2l "1") || str_eqb t (s2l "1.0") then Some (s2l "1.0")
                      else if is_some (py_int t) then Some (s2l "nan") else if str_eqb t (s2l "nan") then Some (s2l "nan") else None;
     uval := fun t => if str_eqb t (s2l "{AB}") || str_eqb t (s2l "ab") then Some (s2l "ab") else None |}.
Example O_demo_laws : oracle_laws O_demo.
Proof.
  constructor; unfold O_demo; cbn [fval uval].
  - intros t r H.
    destruct (str_eqb t (s2l "1") || str_eqb t (s2l "1.0")); [injection H as <-; reflexivity|].
    destruct (is_some (py_int t)); [injection H as <-; reflexivity|].
    destruct (str_eqb t (s2l "nan")); [injection H as <-; reflexivity|discriminate].
  - reflexivity.
  - intros t z H. destruct (str_eqb t (s2l "1") || str_eqb t (s2l "1.0")); [discriminate|].
    unfold is_some, is_none. rewrite H. discriminate.
  - intros t r H. destruct (str_eqb t (s2l "{AB}") || str_eqb t (s2l "ab")); [|discriminate].
    injection H as <-. reflexivity.
  - reflexivity.
Qed.

Definition rc (n : string) : rcls := get_rcls (resolve class_table (CSrc n)).
Definition run (n : string) (t : string) : outcome * res str * outcome :=
  let r := rc n in
  match field_outcome O_demo r (s2l t) with
  | Valid v => (Valid v, col_str r v,
                match col_str r v with Ok t' => field_outcome O_demo r t' | Raise _ => Invalid end)
  | Invalid => (Invalid, Raise ValueError, Invalid)
  end.

(* Entrez "00" -> None -> "0" -> None (the repaired defect); "yEs" -> True -> "YES";
   NullableYesOrNo "null" -> Null -> '' ; alias by member name; non-canonical numerals *)
Example entrez_zero_spellings :
  map (run "EntrezGeneId") ["00"; "-0"; "+0"; " 0"; "0"; "007"]
  = [(Valid VNone, Ok (s2l "0"), Valid VNone); (Valid VNone, Ok (s2l "0"), Valid VNone);
     (Valid VNone, Ok (s2l "0"), Valid VNone); (Valid VNone, Ok (s2l "0"), Valid VNone);
     (Valid VNone, Ok (s2l "0"), Valid VNone); (Valid (VInt 7), Ok (s2l "7"), Valid (VInt 7))].
Proof. vm_compute. reflexivity. Qed.
Example canonical_yes : run "Canonical" "yEs" = (Valid (VBool true), Ok (s2l "YES"), Valid (VBool true)).
Proof. vm_compute. reflexivity. Qed.
Example nullable_yes_or_no :
  map (run "NullableYesOrNo") ["null"; "Null"; ""; "yes"; "1"; "NO"]
  = [(Valid (VEnum "NullableYesOrNoEnum" 0), Ok [], Valid (VEnum "NullableYesOrNoEnum" 0));
     (Valid (VEnum "NullableYesOrNoEnum" 0), Ok [], Valid (VEnum "NullableYesOrNoEnum" 0));
     (Valid (VEnum "NullableYesOrNoEnum" 0), Ok [], Valid (VEnum "NullableYesOrNoEnum" 0));
     (Valid (VEnum "NullableYesOrNoEnum" 2), Ok (s2l "1"), Valid (VEnum "NullableYesOrNoEnum" 2));
     (Valid (VEnum "NullableYesOrNoEnum" 2), Ok (s2l "1"), Valid (VEnum "NullableYesOrNoEnum" 2));
     (Valid (VEnum "NullableYesOrNoEnum" 1), Ok (s2l "0"), Valid (VEnum "NullableYesOrNoEnum" 1))].
Proof. vm_compute. reflexivity. Qed.
Example alias_by_member_name :
  run "VariantClassification" "FrameShiftDeletion"
  = (Valid (VEnum "VariantClassificationEnum" 0), Ok (s2l "Frame_Shift_Del"), Valid (VEnum "VariantClassificationEnum" 0)).
Proof. vm_compute. reflexivity. Qed.
Example numerals_floats_uuids_lists :
  run "OneBasedIntegerColumn" " +1_0" = (Valid (VInt 10), Ok (s2l "10"), Valid (VInt 10)) /\
  run "FloatColumn" "1" = (Valid (VFloat (s2l "1.0")), Ok (s2l "1.0"), Valid (VFloat (s2l "1.0"))) /\
  run "NullableUUIDColumn" "{AB}" = (Valid (VUuid (s2l "ab")), Ok (s2l "ab"), Valid (VUuid (s2l "ab"))) /\
  run "SequenceOfStrings" "a;b" = (Valid (VList [VStr (s2l "a"); VStr (s2l "b")]), Ok (s2l "a;b"), Valid (VList [VStr (s2l "a"); VStr (s2l "b")])) /\
  run "SequenceOfStrings" "" = (Valid (VList []), Ok [], Valid (VList [])) /\
  run "SequenceOfNullableYesOrNo" ";" = (Valid (VList [VEnum "NullableYesOrNoEnum" 0; VEnum "NullableYesOrNoEnum" 0]), Ok (s2l ";"),
                                          Valid (VList [VEnum "NullableYesOrNoEnum" 0; VEnum "NullableYesOrNoEnum" 0])) /\
  class_strict_ok (rc "EntrezGeneId") = true /\ class_strict_ok (rc "SequenceOfSequencers") = true /\
  class_strict_ok (rc "SequenceOfNullableYesOrNo") = false.
Proof. vm_compute. repeat split; reflexivity. Qed.

(* a whole line under a real layout: accepted in Strict mode, rendered, accepted again as the same record *)
Definition demo_line (annot : string) (fields : list string) : bool :=
  match find_layout layouts_ok annot with
  | None => false
  | Some l =>
      let line := join [TAB] (map s2l fields) in
      match from_line class_table O_demo Strict None (Some (l_cols l)) (Some 5%Z) line with
      | Ok (r, []) =>
          match rec_str class_table r with
          | Ok l' =>
              negb (seqb l' line) &&
              match from_line class_table O_demo Strict None (Some (l_cols l)) (Some 5%Z) l' with
              | Ok (r', []) => match rec_str class_table r' with Ok l'' => seqb l'' l' | Raise _ => false end
              | _ => false
              end
          | Raise _ => false
          end
      | _ => false
      end
  end.
Example line_round_trip :
  demo_line "gdc-1.0.0"
    ["TP53"; "00"; "BI;WUGSC"; "GRCh38"; "chr17"; " 7_5"; "+80"; "+"; "MissenseMutation"; "SNP"; "A"; "A"; "T"; "";
     ""; "TCGA-T"; "TCGA-N"; ""; ""; ""; ""; ""; ""; ""; ""; "Somatic"; ""; ""; ""; ""; ""; "IlluminaHiSeq;454"; "{AB}"; "ab"] = true.
Proof. vm_compute. reflexivity. Qed.
