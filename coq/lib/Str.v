(* Str.v - python str operations used by maf-lib, over code-point lists:
   split / split(maxsplit=1) / join / startswith / rstrip / ASCII case maps,
   with the algebraic lemmas the round-trip proofs need. *)
From MafVerif Require Import lib.Base.

(* ---------- str.split(c) for a one-character separator ---------- *)
Fixpoint split (c : char) (s : str) : list str :=
  match s with
  | [] => [[]]
  | x :: r =>
      if N.eqb x c then [] :: split c r
      else match split c r with
           | [] => [[x]]
           | p :: ps => (x :: p) :: ps
           end
  end.

(* sep.join(pieces) *)
Fixpoint join (sep : str) (ps : list str) : str :=
  match ps with
  | [] => []
  | [p] => p
  | p :: rest => p ++ sep ++ join sep rest
  end.

(* str.split(c, 1): (head, Some tail) if c occurs, (s, None) otherwise *)
Fixpoint split1 (c : char) (s : str) : str * option str :=
  match s with
  | [] => ([], None)
  | x :: r =>
      if N.eqb x c then ([], Some r)
      else let '(a, b) := split1 c r in (x :: a, b)
  end.

Fixpoint startswith (s p : str) {struct p} : bool :=
  match p, s with
  | [], _ => true
  | _ :: _, [] => false
  | a :: p', b :: s' => N.eqb a b && startswith s' p'
  end.

(* s.rstrip(chars) with the strip set given as a predicate *)
Fixpoint rstrip (f : char -> bool) (s : str) : str :=
  match s with
  | [] => []
  | x :: r =>
      match rstrip f r with
      | [] => if f x then [] else [x]
      | r' => x :: r'
      end
  end.

Definition is_crlf (c : char) : bool := N.eqb c CR || N.eqb c LF.
Definition rstrip_crlf : str -> str := rstrip is_crlf.

(* str.isspace() code points (CPython: Py_UNICODE_ISSPACE), validated against
   the host by an exhaustive sweep in the harness *)
Definition is_space (c : char) : bool :=
  ((9 <=? c) && (c <=? 13) || (28 <=? c) && (c <=? 32) || N.eqb c 133 || N.eqb c 160
   || N.eqb c 5760 || (8192 <=? c) && (c <=? 8202) || N.eqb c 8232 || N.eqb c 8233
   || N.eqb c 8239 || N.eqb c 8287 || N.eqb c 12288)%N.
Definition rstrip_ws : str -> str := rstrip is_space.

(* ASCII case mapping (exact on ASCII; other code points are left alone) *)
Definition upper_c (c : char) : char := if ((97 <=? c) && (c <=? 122))%N then (c - 32)%N else c.
Definition lower_c (c : char) : char := if ((65 <=? c) && (c <=? 90))%N then (c + 32)%N else c.
Definition upper_a (s : str) : str := map upper_c s.
Definition lower_a (s : str) : str := map lower_c s.
Definition capitalize_a (s : str) : str :=
  match s with [] => [] | x :: r => upper_c x :: lower_a r end.
Definition is_ascii (s : str) : bool := forallb (fun c => (c <? 128)%N) s.

Definition str_in (c : char) (s : str) : bool := existsb (N.eqb c) s.

(* ---------- lemmas ---------- *)
Lemma split_nonempty c s : split c s <> [].
Proof.
  destruct s as [|x r]; simpl; [discriminate|].
  destruct (N.eqb x c); [discriminate|]. destruct (split c r); discriminate.
Qed.

Lemma join_split c s : join [c] (split c s) = s.
Proof.
  induction s as [|x r IH]; simpl; [reflexivity|].
  destruct (N.eqb_spec x c) as [->|Hne].
  - pose proof (split_nonempty c r) as Hn.
    destruct (split c r) as [|p ps] eqn:E; [congruence|].
    simpl. simpl in IH. now rewrite IH.
  - pose proof (split_nonempty c r) as Hn.
    destruct (split c r) as [|p ps] eqn:E; [congruence|].
    simpl in *. destruct ps; simpl in *; now rewrite <- IH.
Qed.

Lemma split_no_sep_piece c s : ~ In c s -> split c s = [s].
Proof.
  induction s as [|x r IH]; simpl; intros H; [reflexivity|].
  destruct (N.eqb_spec x c) as [->|Hne]; [tauto|].
  rewrite IH; tauto.
Qed.

Lemma split_app_sep c p s : ~ In c p -> split c (p ++ c :: s) = p :: split c s.
Proof.
  induction p as [|x p IH]; simpl; intros H.
  - now rewrite N.eqb_refl.
  - destruct (N.eqb_spec x c) as [->|Hne]; [tauto|].
    rewrite IH; tauto.
Qed.

Lemma split_join c ps :
  ps <> [] -> Forall (fun p => ~ In c p) ps -> split c (join [c] ps) = ps.
Proof.
  induction ps as [|p ps IH]; intros Hne HF; [congruence|].
  inversion HF as [|? ? Hp HF']; subst.
  destruct ps as [|q ps].
  - simpl. now apply split_no_sep_piece.
  - assert (E : join [c] (p :: q :: ps) = p ++ c :: join [c] (q :: ps)) by reflexivity.
    rewrite E, split_app_sep by assumption.
    rewrite IH; [reflexivity|discriminate|assumption].
Qed.

Lemma split_pieces_no_sep c s p : In p (split c s) -> ~ In c p.
Proof.
  revert p; induction s as [|x r IH]; simpl; intros p H.
  - destruct H as [<-|[]]. tauto.
  - destruct (N.eqb_spec x c) as [->|Hne].
    + destruct H as [<-|H]; [tauto|auto].
    + destruct (split c r) as [|q qs] eqn:E.
      * destruct H as [<-|[]]. intros [H|[]]; congruence.
      * destruct H as [<-|H].
        -- intros [H|H]; [congruence|]. apply (IH q); [now left|assumption].
        -- apply IH. now right.
Qed.

Lemma split_forall_no_sep c s : Forall (fun p => ~ In c p) (split c s).
Proof. apply Forall_forall. intros p. apply split_pieces_no_sep. Qed.

Lemma split1_spec c s :
  match split1 c s with
  | (a, Some b) => s = a ++ c :: b /\ ~ In c a
  | (a, None) => s = a /\ ~ In c a
  end.
Proof.
  induction s as [|x r IH]; simpl; [tauto|].
  destruct (N.eqb_spec x c) as [->|Hne]; [simpl; tauto|].
  destruct (split1 c r) as [a [b|]]; simpl; destruct IH as [-> Hn]; split; auto;
    intros [H|H]; congruence || tauto.
Qed.

Lemma split1_app c a b : ~ In c a -> split1 c (a ++ c :: b) = (a, Some b).
Proof.
  induction a as [|x a IH]; simpl; intros H.
  - now rewrite N.eqb_refl.
  - destruct (N.eqb_spec x c) as [->|Hne]; [tauto|]. rewrite IH; tauto.
Qed.

Lemma split1_none c a : ~ In c a -> split1 c a = (a, None).
Proof.
  induction a as [|x a IH]; simpl; intros H; [reflexivity|].
  destruct (N.eqb_spec x c) as [->|Hne]; [tauto|]. rewrite IH; tauto.
Qed.

Lemma startswith_app p s : startswith (p ++ s) p = true.
Proof. induction p as [|a p IH]; simpl; [reflexivity|]. now rewrite N.eqb_refl. Qed.

Lemma startswith_spec s p : startswith s p = true <-> exists t, s = p ++ t.
Proof.
  revert s; induction p as [|a p IH]; intros s; simpl.
  - split; eauto.
  - destruct s as [|b s]; [split; [discriminate|intros [t H]; discriminate]|].
    rewrite andb_true_iff, N.eqb_eq, IH. split.
    + intros [-> [t ->]]. eauto.
    + intros [t H]. injection H as -> ->. eauto.
Qed.

(* rstrip: s = rstrip f s ++ stripped suffix; the result does not end in f *)
Lemma rstrip_decomp f s : exists t, s = rstrip f s ++ t /\ forallb f t = true.
Proof.
  induction s as [|x r [t [Ht Hf]]]; simpl; [exists []; auto|].
  destruct (rstrip f r) as [|y r'] eqn:E.
  - destruct (f x) eqn:Fx.
    + exists (x :: t). simpl in *. subst r. simpl. now rewrite Fx.
    + exists t. simpl in *. now subst r.
  - exists t. simpl. now rewrite Ht at 1.
Qed.

Lemma rstrip_nil_iff f s : rstrip f s = [] <-> forallb f s = true.
Proof.
  induction s as [|x r IH]; simpl; [tauto|].
  destruct (rstrip f r) as [|y r'] eqn:E.
  - destruct (f x); simpl; [tauto|]. split; discriminate.
  - split; [discriminate|]. rewrite andb_true_iff. intros [_ H]. apply IH in H. discriminate.
Qed.

Lemma rstrip_last f s : rstrip f s <> [] -> f (last (rstrip f s) 0%N) = false.
Proof.
  induction s as [|x r IH]; simpl; [congruence|].
  destruct (rstrip f r) as [|y r'] eqn:E.
  - destruct (f x) eqn:Fx; [congruence|]. intros _. exact Fx.
  - intros _. change (last (x :: y :: r') 0%N) with (last (y :: r') 0%N). apply IH. discriminate.
Qed.

Lemma rstrip_fix f s : (s = [] \/ f (last s 0%N) = false) -> rstrip f s = s.
Proof.
  induction s as [|x r IH]; simpl; [reflexivity|].
  intros [H|H]; [discriminate|].
  destruct r as [|y r'].
  - simpl. now rewrite H.
  - rewrite IH by (right; exact H). reflexivity.
Qed.

Lemma rstrip_idem f s : rstrip f (rstrip f s) = rstrip f s.
Proof.
  apply rstrip_fix. destruct (rstrip f s) eqn:E; [now left|right].
  rewrite <- E. apply rstrip_last. congruence.
Qed.

Lemma rstrip_no_match f s : forallb (fun c => negb (f c)) s = true -> rstrip f s = s.
Proof.
  induction s as [|x r IH]; simpl; [reflexivity|].
  rewrite andb_true_iff. intros [Hx Hr]. rewrite IH by assumption.
  destruct r; [|reflexivity]. apply negb_true_iff in Hx. now rewrite Hx.
Qed.

Lemma str_in_spec c s : str_in c s = true <-> In c s.
Proof.
  unfold str_in. rewrite existsb_exists. split.
  - intros [x [H E]]. apply N.eqb_eq in E. now subst.
  - intros H. exists c. split; [assumption|apply N.eqb_refl].
Qed.

Lemma length_split_join c ps :
  ps <> [] -> Forall (fun p => ~ In c p) ps -> length (split c (join [c] ps)) = length ps.
Proof. intros. now rewrite split_join. Qed.

Lemma in_join_sep c ps x : In x (join [c] ps) -> x = c \/ exists p, In p ps /\ In x p.
Proof.
  induction ps as [|p ps IH]; simpl; [tauto|].
  destruct ps as [|q ps].
  - intros H. right. exists p. auto.
  - intros H. apply in_app_or in H as [H|H]; [right; exists p; auto|].
    simpl in H. destruct H as [H|H]; [now left|].
    destruct (IH H) as [?|[p' [Hp Hx]]]; [now left|right; exists p'; auto].
Qed.
