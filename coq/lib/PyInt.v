(* PyInt.v - python's int(text) for base 10 on ASCII text, and str(int).
   Grammar modelled (CPython): optional surrounding whitespace (str.isspace
   set), optional sign, then digits with single interior underscores.
   Non-ASCII decimal digits (which CPython also accepts) are outside the model:
   texts containing them are in the harness' don't-care zone. *)
From MafVerif Require Import lib.Base lib.Str.

Definition digit_val (c : char) : option N :=
  if ((48 <=? c) && (c <=? 57))%N then Some (c - 48)%N else None.

(* digits (_? digit)* ; need_digit: the next char must be a digit *)
Fixpoint digs (s : str) (acc : N) (need_digit : bool) : option N :=
  match s with
  | [] => if need_digit then None else Some acc
  | c :: r =>
      match digit_val c with
      | Some d => digs r (acc * 10 + d)%N false
      | None => if N.eqb c 95 && negb need_digit then digs r acc true else None
      end
  end.

Fixpoint lstrip (f : char -> bool) (s : str) : str :=
  match s with
  | [] => []
  | x :: r => if f x then lstrip f r else s
  end.

(* the whitespace int() skips on ASCII text (C isspace); text with non-ASCII
   characters goes through a different CPython path and is outside the model *)
Definition is_int_space (c : char) : bool := ((9 <=? c) && (c <=? 13) || N.eqb c 32)%N.
Definition strip_ws (s : str) : str := rstrip is_int_space (lstrip is_int_space s).

Definition py_int (s : str) : option Z :=
  let t := strip_ws s in
  match t with
  | [] => None
  | c :: r =>
      if N.eqb c 43 then option_map Z.of_N (digs r 0 true)                       (* '+' *)
      else if N.eqb c 45 then option_map (fun n => (- Z.of_N n)%Z) (digs r 0 true)  (* '-' *)
      else option_map Z.of_N (digs t 0 true)
  end.

(* ---------- str(int) ---------- *)
Fixpoint digits_lsb (fuel : nat) (n : N) : list N :=
  match fuel with
  | O => [n]
  | S f => if (n <? 10)%N then [n] else (n mod 10)%N :: digits_lsb f (n / 10)%N
  end.

Definition render_N (n : N) : str :=
  map (fun d => (d + 48)%N) (rev (digits_lsb (N.size_nat n) n)).

Definition render_int (z : Z) : str :=
  match z with
  | Z0 => [48%N]
  | Zpos p => render_N (Npos p)
  | Zneg p => 45%N :: render_N (Npos p)
  end.

(* ---------- round trip ---------- *)
Fixpoint value_lsb (l : list N) : N :=
  match l with [] => 0 | d :: r => d + 10 * value_lsb r end%N.

Lemma digits_lsb_value fuel n : (n < 2 ^ N.of_nat fuel)%N -> value_lsb (digits_lsb fuel n) = n.
Proof.
  revert n; induction fuel as [|f IH]; intros n H.
  - simpl in *. lia.
  - cbn [digits_lsb]. destruct (N.ltb_spec n 10); [simpl; lia|].
    cbn [value_lsb]. rewrite IH.
    + pose proof (N.div_mod n 10 ltac:(lia)). lia.
    + rewrite Nat2N.inj_succ, N.pow_succ_r' in H.
      apply N.div_lt_upper_bound; lia.
Qed.

Lemma digits_lsb_lt10 fuel n : (n < 2 ^ N.of_nat fuel)%N -> Forall (fun d => d < 10)%N (digits_lsb fuel n).
Proof.
  revert n; induction fuel as [|f IH]; intros n H.
  - simpl in *. constructor; [lia|constructor].
  - cbn [digits_lsb]. destruct (N.ltb_spec n 10).
    + constructor; auto.
    + constructor; [apply N.mod_lt; lia|]. apply IH.
      rewrite Nat2N.inj_succ, N.pow_succ_r' in H.
      apply N.div_lt_upper_bound; lia.
Qed.

Lemma digits_lsb_nonempty fuel n : digits_lsb fuel n <> [].
Proof. destruct fuel; simpl; [discriminate|]. destruct (n <? 10)%N; discriminate. Qed.

Lemma size_nat_bound n : (n < 2 ^ N.of_nat (N.size_nat n))%N.
Proof.
  destruct n as [|p]; simpl; [lia|].
  induction p as [p IH|p IH|]; cbn [Pos.size_nat].
  - rewrite Nat2N.inj_succ, N.pow_succ_r'. lia.
  - rewrite Nat2N.inj_succ, N.pow_succ_r'. lia.
  - simpl. lia.
Qed.

(* value of a most-significant-first digit list, as digs computes it *)
Lemma digs_msb l acc :
  Forall (fun d => d < 10)%N l -> l <> [] ->
  forall nd, digs (map (fun d => d + 48)%N l) acc nd = Some (fold_left (fun a d => a * 10 + d)%N l acc).
Proof.
  revert acc; induction l as [|d l IH]; intros acc HF Hne nd; [congruence|].
  inversion HF as [|? ? Hd HF']; subst. cbn [map digs fold_left].
  unfold digit_val.
  destruct (N.leb_spec 48 (d + 48)); [|lia].
  destruct (N.leb_spec (d + 48) 57); [|lia]. simpl.
  replace (d + 48 - 48)%N with d by lia.
  destruct l as [|e l]; [reflexivity|].
  apply IH; [assumption|discriminate].
Qed.

Lemma fold_left_rev_value l :
  fold_left (fun a d => a * 10 + d)%N (rev l) 0%N = value_lsb l.
Proof.
  induction l as [|d l IH]; [reflexivity|].
  cbn [rev]. rewrite fold_left_app. cbn [fold_left value_lsb]. rewrite IH. lia.
Qed.

Lemma digs_render_N n nd : digs (render_N n) 0 nd = Some n.
Proof.
  unfold render_N. pose proof (size_nat_bound n) as Hb.
  rewrite digs_msb.
  - now rewrite fold_left_rev_value, digits_lsb_value.
  - apply Forall_rev. now apply digits_lsb_lt10.
  - intros H. apply (f_equal (@rev N)) in H. rewrite rev_involutive in H.
    now apply digits_lsb_nonempty in H.
Qed.

(* rendered integers consist of '-' and ASCII digits only *)
Definition int_char (c : char) : bool := N.eqb c 45 || ((48 <=? c) && (c <=? 57))%N.

Lemma render_N_chars n : forallb int_char (render_N n) = true.
Proof.
  unfold render_N. apply forallb_forall. intros c Hc.
  apply in_map_iff in Hc as [d [<- Hd]]. apply in_rev in Hd.
  pose proof (digits_lsb_lt10 _ _ (size_nat_bound n)) as HF.
  rewrite Forall_forall in HF. specialize (HF _ Hd).
  unfold int_char. destruct (N.leb_spec 48 (d + 48)); [|lia].
  destruct (N.leb_spec (d + 48) 57); [|lia]. now rewrite orb_true_r.
Qed.

Lemma render_int_chars z : forallb int_char (render_int z) = true.
Proof.
  destruct z; simpl; [reflexivity| apply render_N_chars |].
  apply render_N_chars.
Qed.

Lemma int_char_not_space c : int_char c = true -> is_int_space c = false.
Proof.
  unfold int_char, is_int_space. intros H.
  apply orb_true_iff in H as [H|H].
  - apply N.eqb_eq in H; subst. reflexivity.
  - apply andb_true_iff in H as [H1 H2]. apply N.leb_le in H1, H2.
    repeat match goal with
    | |- (_ || _) = false => apply orb_false_iff; split
    | |- (_ && _) = false => apply andb_false_iff
    | |- N.eqb _ _ = false => apply N.eqb_neq; lia
    end;
    (try (left; apply N.leb_gt; lia)); (try (right; apply N.leb_gt; lia)).
Qed.

Lemma render_N_nonempty n : render_N n <> [].
Proof.
  unfold render_N. intros H. apply map_eq_nil in H.
  apply (f_equal (@rev N)) in H. rewrite rev_involutive in H.
  now apply digits_lsb_nonempty in H.
Qed.

Lemma lstrip_no f s : match s with [] => True | x :: _ => f x = false end -> lstrip f s = s.
Proof. destruct s as [|x r]; simpl; [reflexivity|]. now intros ->. Qed.

Lemma last_in {X} (l : list X) d : l <> [] -> In (last l d) l.
Proof.
  induction l as [|x l IH]; [congruence|]. intros _.
  destruct l as [|y l]; [now left|]. right. apply IH. discriminate.
Qed.

Lemma strip_ws_clean s :
  s <> [] -> forallb int_char s = true -> strip_ws s = s.
Proof.
  intros Hne H. unfold strip_ws.
  rewrite forallb_forall in H.
  rewrite lstrip_no.
  - apply rstrip_fix. right. apply int_char_not_space, H, last_in, Hne.
  - destruct s as [|x r]; [congruence|]. apply int_char_not_space, H. now left.
Qed.

Theorem py_int_render z : py_int (render_int z) = Some z.
Proof.
  unfold py_int. rewrite strip_ws_clean.
  - destruct z as [|p|p]; cbn [render_int].
    + reflexivity.
    + pose proof (render_N_nonempty (Npos p)) as Hne.
      destruct (render_N (Npos p)) as [|c r] eqn:E; [congruence|].
      assert (Hd : digs (c :: r) 0 true = Some (Npos p)) by (rewrite <- E; apply digs_render_N).
      (* the first char is a digit, hence neither '+' nor '-' *)
      assert (c <> 43 /\ c <> 45)%N as [H1 H2].
      { cbn [digs] in Hd. unfold digit_val in Hd.
        destruct ((48 <=? c) && (c <=? 57))%N eqn:B.
        - apply andb_true_iff in B as [B1 B2]. apply N.leb_le in B1. lia.
        - simpl in Hd. rewrite andb_false_r in Hd. discriminate. }
      apply N.eqb_neq in H1, H2. rewrite H1, H2, Hd. reflexivity.
    + rewrite N.eqb_refl. cbn [N.eqb Pos.eqb]. rewrite digs_render_N. reflexivity.
  - destruct z; simpl; try discriminate. apply render_N_nonempty.
  - apply render_int_chars.
Qed.
