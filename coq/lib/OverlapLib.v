(* OverlapLib.v - order facts used by the overlap cluster: python str
   comparison is a total order; so are the class comparisons of the concrete
   keys; a small interface (cls_order) that the generic proofs are stated
   against. *)
From MafVerif Require Import lib.Base model.Overlap.

(* what the generic proofs need from the comparison of key classes *)
Record cls_order {C : Type} (cmp : C -> C -> comparison) (eqb : C -> C -> bool) : Prop := {
  co_eq : forall a b, cmp a b = Eq <-> a = b;
  co_antisym : forall a b, cmp b a = CompOpp (cmp a b);
  co_trans : forall a b c, cmp a b = Lt -> cmp b c = Lt -> cmp a c = Lt;
  co_eqb : forall a b, eqb a b = true <-> a = b
}.

(* ---------------- str_cmp ---------------- *)
Lemma str_cmp_eq a : forall b, str_cmp a b = Eq <-> a = b.
Proof.
  induction a as [|x a IH]; intros [|y b]; simpl; split; try discriminate; try reflexivity.
  - destruct (N.compare_spec x y); try discriminate. subst. intros H. apply IH in H. now subst.
  - intros E. injection E as -> ->. rewrite N.compare_refl. now apply IH.
Qed.

Lemma str_cmp_antisym a : forall b, str_cmp b a = CompOpp (str_cmp a b).
Proof.
  induction a as [|x a IH]; intros [|y b]; simpl; try reflexivity.
  rewrite (N.compare_antisym x y). destruct (N.compare x y); simpl; auto.
Qed.

Lemma str_cmp_trans a : forall b c, str_cmp a b = Lt -> str_cmp b c = Lt -> str_cmp a c = Lt.
Proof.
  induction a as [|x a IH]; intros [|y b] [|z c]; simpl; try discriminate; try reflexivity.
  destruct (N.compare_spec x y) as [->|Hxy|Hxy]; try discriminate.
  - destruct (N.compare z y) eqn:Ezy; rewrite N.compare_antisym, Ezy; simpl; try discriminate.
    + apply IH.
    + reflexivity.
  - intros _. destruct (N.compare_spec y z) as [->|Hyz|Hyz]; try discriminate.
    + intros _. apply N.compare_lt_iff in Hxy. now rewrite Hxy.
    + intros _. assert (H : (x < z)%N) by lia. apply N.compare_lt_iff in H. now rewrite H.
Qed.

(* ---------------- chromosome component ---------------- *)
Lemma chromk_cmp_eq a b : chromk_cmp a b = Eq <-> a = b.
Proof.
  destruct a, b; simpl; split; try discriminate.
  - intros H. apply Nat.compare_eq in H. now subst.
  - intros E. injection E as ->. apply Nat.compare_refl.
  - intros H. apply str_cmp_eq in H. now subst.
  - intros E. injection E as ->. now apply str_cmp_eq.
Qed.
Lemma chromk_cmp_antisym a b : chromk_cmp b a = CompOpp (chromk_cmp a b).
Proof. destruct a, b; simpl; auto using Nat.compare_antisym, str_cmp_antisym. Qed.
Lemma chromk_cmp_trans a b c : chromk_cmp a b = Lt -> chromk_cmp b c = Lt -> chromk_cmp a c = Lt.
Proof.
  destruct a, b, c; simpl; try discriminate; auto.
  - rewrite !Nat.compare_lt_iff. lia.
  - apply str_cmp_trans.
Qed.
Lemma chromk_eqb_eq a b : chromk_eqb a b = true <-> a = b.
Proof.
  destruct a, b; simpl; split; try discriminate.
  - intros H. apply Nat.eqb_eq in H. now subst.
  - intros E. injection E as ->. apply Nat.eqb_refl.
  - intros H. apply str_eqb_eq in H. now subst.
  - intros E. injection E as ->. apply str_eqb_refl.
Qed.

(* ---------------- barcode component ---------------- *)
Lemma ostr_cmp_eq a b : ostr_cmp a b = Eq <-> a = b.
Proof.
  destruct a, b; simpl; split; try discriminate; try reflexivity.
  - intros H. apply str_cmp_eq in H. now subst.
  - intros E. injection E as ->. now apply str_cmp_eq.
Qed.
Lemma ostr_cmp_antisym a b : ostr_cmp b a = CompOpp (ostr_cmp a b).
Proof. destruct a, b; simpl; auto using str_cmp_antisym. Qed.
Lemma ostr_cmp_trans a b c : ostr_cmp a b = Lt -> ostr_cmp b c = Lt -> ostr_cmp a c = Lt.
Proof. destruct a, b, c; simpl; try discriminate; auto. apply str_cmp_trans. Qed.
Lemma ostr_eqb_eq a b : ostr_eqb a b = true <-> a = b.
Proof.
  destruct a, b; simpl; split; try discriminate; try reflexivity.
  - intros H. apply str_eqb_eq in H. now subst.
  - intros E. injection E as ->. apply str_eqb_refl.
Qed.
Lemma bar_cmp_eq a b : bar_cmp a b = Eq <-> a = b.
Proof.
  destruct a as [[t1 n1]|], b as [[t2 n2]|]; simpl; split; try discriminate; try reflexivity.
  - destruct (ostr_cmp t1 t2) eqn:E; try discriminate. apply ostr_cmp_eq in E. subst.
    intros H. apply ostr_cmp_eq in H. now subst.
  - intros E. injection E as -> ->. rewrite (proj2 (ostr_cmp_eq t2 t2) eq_refl). now apply ostr_cmp_eq.
Qed.
Lemma bar_cmp_antisym a b : bar_cmp b a = CompOpp (bar_cmp a b).
Proof.
  destruct a as [[t1 n1]|], b as [[t2 n2]|]; simpl; try reflexivity.
  rewrite (ostr_cmp_antisym t1 t2). destruct (ostr_cmp t1 t2); simpl; auto using ostr_cmp_antisym.
Qed.
Lemma bar_cmp_trans a b c : bar_cmp a b = Lt -> bar_cmp b c = Lt -> bar_cmp a c = Lt.
Proof.
  destruct a as [[t1 n1]|], b as [[t2 n2]|], c as [[t3 n3]|]; simpl; try discriminate; auto.
  destruct (ostr_cmp t1 t2) eqn:E12; try discriminate.
  - apply ostr_cmp_eq in E12. subst. destruct (ostr_cmp t2 t3); try discriminate; auto.
    apply ostr_cmp_trans.
  - intros _. destruct (ostr_cmp t2 t3) eqn:E23; try discriminate.
    + apply ostr_cmp_eq in E23. subst. now rewrite E12.
    + intros _. now rewrite (ostr_cmp_trans _ _ _ E12 E23).
Qed.
Lemma bar_eqb_eq a b : bar_eqb a b = true <-> a = b.
Proof.
  destruct a as [[t1 n1]|], b as [[t2 n2]|]; simpl; split; try discriminate; try reflexivity.
  - rewrite andb_true_iff, !ostr_eqb_eq. intros [-> ->]. reflexivity.
  - intros E. injection E as -> ->. now rewrite !(proj2 (ostr_eqb_eq _ _) eq_refl).
Qed.

(* ---------------- the class of a concrete key ---------------- *)
Lemma ccls_order : cls_order ccls_cmp ccls_eqb.
Proof.
  split.
  - intros [b1 c1] [b2 c2]. unfold ccls_cmp. simpl. split.
    + destruct (bar_cmp b1 b2) eqn:E; try discriminate. apply bar_cmp_eq in E. subst.
      intros H. apply chromk_cmp_eq in H. now subst.
    + intros E. injection E as -> ->. rewrite (proj2 (bar_cmp_eq b2 b2) eq_refl). now apply chromk_cmp_eq.
  - intros [b1 c1] [b2 c2]. unfold ccls_cmp. simpl. rewrite (bar_cmp_antisym b1 b2).
    destruct (bar_cmp b1 b2); simpl; auto using chromk_cmp_antisym.
  - intros [b1 c1] [b2 c2] [b3 c3]. unfold ccls_cmp. simpl.
    destruct (bar_cmp b1 b2) eqn:E12; try discriminate.
    + apply bar_cmp_eq in E12. subst. destruct (bar_cmp b2 b3); try discriminate; auto.
      apply chromk_cmp_trans.
    + intros _. destruct (bar_cmp b2 b3) eqn:E23; try discriminate.
      * apply bar_cmp_eq in E23. subst. now rewrite E12.
      * intros _. now rewrite (bar_cmp_trans _ _ _ E12 E23).
  - intros [b1 c1] [b2 c2]. unfold ccls_eqb. simpl. rewrite andb_true_iff, bar_eqb_eq, chromk_eqb_eq.
    split; [intros [-> ->]; reflexivity|intros E; injection E as -> ->; auto].
Qed.
