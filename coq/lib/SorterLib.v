(* SorterLib.v - order and list lemmas shared by the sorter proofs:
   strict weak orders given as boolean `lt`, the induced total preorder `le`
   and equivalence `eqv`, sorted lists modulo equivalence, uniqueness of the
   sorted arrangement of a key multiset, permutations of concatenations. *)
From Coq Require Import List Bool Arith Lia Permutation Sorted.
Import ListNotations.

Section Order.
  Variable K : Type.
  Variable lt : K -> K -> bool.

  (* irreflexive, transitive, and "not less" is transitive *)
  Definition swo : Prop :=
    (forall a, lt a a = false) /\
    (forall a b c, lt a b = true -> lt b c = true -> lt a c = true) /\
    (forall a b c, lt a b = false -> lt b c = false -> lt a c = false).

  Definition le (a b : K) : Prop := lt b a = false.
  Definition eqv (a b : K) : Prop := lt a b = false /\ lt b a = false.

  Hypothesis H : swo.

  Lemma le_refl a : le a a.
  Proof. destruct H as [I _]. apply I. Qed.

  Lemma le_trans a b c : le a b -> le b c -> le a c.
  Proof. destruct H as (_ & _ & N). unfold le. intros ab bc. exact (N c b a bc ab). Qed.

  Lemma eqv_refl a : eqv a a.
  Proof. split; apply le_refl. Qed.

  Lemma eqv_sym a b : eqv a b -> eqv b a.
  Proof. intros [x y]; split; assumption. Qed.

  Lemma eqv_trans a b c : eqv a b -> eqv b c -> eqv a c.
  Proof.
    destruct H as (_ & _ & N). intros [ab ba] [bc cb]. split.
    - exact (N a b c ab bc).
    - exact (N c b a cb ba).
  Qed.

  Lemma le_eqv_l a a' b : eqv a a' -> le a b -> le a' b.
  Proof. intros [x y] l. apply le_trans with a; [exact x | exact l]. Qed.

  Lemma le_eqv_r a b b' : eqv b b' -> le a b -> le a b'.
  Proof. intros [x y] l. apply le_trans with b; [exact l | exact y]. Qed.

  Lemma Forall_le_trans k k' l : le k k' -> Forall (le k') l -> Forall (le k) l.
  Proof. intros kk F. eapply Forall_impl; [| exact F]. intros a. apply le_trans; exact kk. Qed.

  Lemma sorted_eqv l l' :
    Forall2 eqv l l' -> StronglySorted le l -> StronglySorted le l'.
  Proof.
    induction 1 as [| a a' l l' e F IH]; intros S.
    - constructor.
    - inversion S as [| ? ? S' Fa]; subst. constructor.
      + apply IH; exact S'.
      + clear IH S S'. induction F as [| b b' l l' eb F IHF]; constructor.
        * inversion Fa; subst. apply le_eqv_l with a; [exact e |]. apply le_eqv_r with b; assumption.
        * apply IHF. inversion Fa; assumption.
  Qed.

  (* ---- the key multiset, counted modulo equivalence ---- *)
  Definition eqvb (a b : K) : bool := negb (lt a b) && negb (lt b a).

  Lemma eqvb_true a b : eqvb a b = true <-> eqv a b.
  Proof.
    unfold eqvb, eqv. destruct (lt a b), (lt b a); simpl; split; intros; try discriminate; try tauto;
      destruct H0; discriminate.
  Qed.

  Definition cnt (k : K) (l : list K) : nat := length (filter (eqvb k) l).

  Lemma eqvb_compat k a b : eqv a b -> eqvb k a = eqvb k b.
  Proof.
    intros e. destruct (eqvb k a) eqn:E1, (eqvb k b) eqn:E2; try reflexivity.
    - apply eqvb_true in E1. assert (X : eqv k b) by (eapply eqv_trans; eauto).
      apply eqvb_true in X. congruence.
    - apply eqvb_true in E2. assert (X : eqv k a) by (eapply eqv_trans; [exact E2 | apply eqv_sym; exact e]).
      apply eqvb_true in X. congruence.
  Qed.

  Lemma cnt_perm k l l' : Permutation l l' -> cnt k l = cnt k l'.
  Proof.
    unfold cnt. induction 1; simpl; try congruence.
    - destruct (eqvb k x); simpl; congruence.
    - destruct (eqvb k x), (eqvb k y); simpl; reflexivity.
  Qed.

  Lemma cnt_eqv k l l' : Forall2 eqv l l' -> cnt k l = cnt k l'.
  Proof.
    unfold cnt. induction 1 as [| a b l l' e F IH]; simpl; [reflexivity |].
    rewrite (eqvb_compat k a b e). destruct (eqvb k b); simpl; congruence.
  Qed.

  Lemma cnt_pos_in k l : (0 < cnt k l)%nat -> exists x, In x l /\ eqv k x.
  Proof.
    unfold cnt. induction l as [| a l IH]; simpl; [lia |].
    destruct (eqvb k a) eqn:E.
    - intros _. exists a. split; [left; reflexivity | apply eqvb_true; exact E].
    - intros P. destruct (IH P) as (x & I & e). exists x. split; [right; exact I | exact e].
  Qed.

  (* a sorted list is determined, up to equivalence position by position, by
     its key multiset *)
  Lemma sorted_unique l1 : forall l2,
    StronglySorted le l1 -> StronglySorted le l2 ->
    (forall k, cnt k l1 = cnt k l2) -> Forall2 eqv l1 l2.
  Proof.
    induction l1 as [| a l1 IH]; intros l2 S1 S2 C.
    - destruct l2 as [| b l2]; [constructor |].
      specialize (C b). unfold cnt in C. simpl in C.
      assert (E : eqvb b b = true) by (apply eqvb_true; apply eqv_refl).
      rewrite E in C. simpl in C. discriminate.
    - destruct l2 as [| b l2].
      + specialize (C a). unfold cnt in C. simpl in C.
        assert (E : eqvb a a = true) by (apply eqvb_true; apply eqv_refl).
        rewrite E in C. simpl in C. discriminate.
      + inversion S1 as [| ? ? S1' F1]; subst. inversion S2 as [| ? ? S2' F2]; subst.
        assert (ab : eqv a b).
        { split.
          - (* le b a : b is below the element of l2 equivalent to a *)
            assert (P : (0 < cnt a (b :: l2))%nat).
            { rewrite <- C. unfold cnt. simpl.
              assert (E : eqvb a a = true) by (apply eqvb_true; apply eqv_refl). rewrite E. simpl. lia. }
            destruct (cnt_pos_in _ _ P) as (x & I & e).
            assert (lbx : le b x).
            { destruct I as [-> | I]; [apply le_refl |]. rewrite Forall_forall in F2. apply F2; exact I. }
            (* le b x, eqv a x  ->  le b a *)
            unfold le in *. destruct e as [e1 e2]. destruct H as (_ & _ & N).
            change (le b a). unfold le. exact (N a x b e1 lbx).
          - assert (P : (0 < cnt b (a :: l1))%nat).
            { rewrite C. unfold cnt. simpl.
              assert (E : eqvb b b = true) by (apply eqvb_true; apply eqv_refl). rewrite E. simpl. lia. }
            destruct (cnt_pos_in _ _ P) as (x & I & e).
            assert (lax : le a x).
            { destruct I as [-> | I]; [apply le_refl |]. rewrite Forall_forall in F1. apply F1; exact I. }
            unfold le in *. destruct e as [e1 e2]. destruct H as (_ & _ & N).
            exact (N b x a e1 lax). }
        constructor; [exact ab |].
        apply IH; [exact S1' | exact S2' |].
        intros k. specialize (C k). unfold cnt in *. simpl in C.
        rewrite (eqvb_compat k a b ab) in C. destruct (eqvb k b); simpl in C; lia.
  Qed.

End Order.

(* the order pulled back along a projection is again a strict weak order *)
Lemma swo_pullback (X K : Type) (lt : K -> K -> bool) (f : X -> K) :
  swo K lt -> swo X (fun a b => lt (f a) (f b)).
Proof.
  intros (I & T & N). repeat split; intros.
  - apply I.
  - eapply T; eauto.
  - eapply N; eauto.
Qed.

(* ---------- lists ---------- *)
Lemma Permutation_concat {X} (l l' : list (list X)) :
  Permutation l l' -> Permutation (concat l) (concat l').
Proof.
  induction 1; simpl.
  - constructor.
  - apply Permutation_app_head; assumption.
  - rewrite !app_assoc. apply Permutation_app_tail. apply Permutation_app_comm.
  - eapply Permutation_trans; eassumption.
Qed.

Lemma StronglySorted_map {X Y} (R : Y -> Y -> Prop) (f : X -> Y) (l : list X) :
  StronglySorted (fun a b => R (f a) (f b)) l -> StronglySorted R (map f l).
Proof.
  induction 1; simpl; constructor; [assumption |].
  rewrite Forall_map. assumption.
Qed.

Lemma Forall2_perm_fun {X Y} (R : X -> Y -> Prop) :
  (forall x y y', R x y -> R x y' -> y = y') ->
  forall l1 l2, Permutation l1 l2 -> forall m1 m2, Forall2 R l1 m1 -> Forall2 R l2 m2 -> Permutation m1 m2.
Proof.
  intros Fn l1 l2 P. induction P; intros m1 m2 F1 F2.
  - inversion F1; inversion F2; subst. constructor.
  - inversion F1; inversion F2; subst. rewrite (Fn _ _ _ H1 H6). constructor. apply IHP; assumption.
  - inversion F1 as [| ? a1 ? r1 Ra1 F1']; subst. inversion F1' as [| ? a2 ? r2 Ra2 F1'']; subst.
    inversion F2 as [| ? b1 ? s1 Rb1 F2']; subst. inversion F2' as [| ? b2 ? s2 Rb2 F2'']; subst.
    rewrite (Fn _ _ _ Ra1 Rb2), (Fn _ _ _ Ra2 Rb1).
    assert (E : r2 = s2).
    { clear - Fn F1'' F2''. revert s2 F2''. induction F1''; intros s2 F2''; inversion F2''; subst; [reflexivity |].
      f_equal; [eapply Fn; eauto | apply IHF1''; assumption]. }
    subst. apply perm_swap.
  - assert (exists m, Forall2 R l' m) as [m Fm].
    { clear - P1 F1. revert m1 F1. induction P1; intros m1 F1.
      - exists []. constructor.
      - inversion F1; subst. destruct (IHP1 _ H3) as [m Fm]. exists (y :: m). constructor; assumption.
      - inversion F1; subst. inversion H3; subst. exists (y1 :: y0 :: l'0). repeat constructor; assumption.
      - destruct (IHP1_1 _ F1) as [m Fm]. destruct (IHP1_2 _ Fm) as [m' Fm']. exists m'. exact Fm'. }
    eapply Permutation_trans; [apply (IHP1 _ _ F1 Fm) | apply (IHP2 _ _ Fm F2)].
Qed.
