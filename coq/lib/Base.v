(* Base.v - shared vocabulary of the maf-lib model: text, python values'
   skeleton, exceptions, results, S-expressions (the wire format of the
   correspondence check), association lists with python-dict discipline.
   Stdlib only; contains definitions and a few basic lemmas. *)
From Coq Require Export List ZArith NArith Bool Lia.
Export ListNotations.
Open Scope Z_scope.

(* ---------- text: a python str is a sequence of code points ---------- *)
Definition char := N.
Definition str := list char.

Definition TAB : char := 9%N.
Definition LF : char := 10%N.
Definition CR : char := 13%N.
Definition SP : char := 32%N.
Definition HASH : char := 35%N.
Definition COMMA : char := 44%N.
Definition SEMI : char := 59%N.
Definition DASH : char := 45%N.

Definition str_eqb (a b : str) : bool :=
  if list_eq_dec N.eq_dec a b then true else false.

Lemma str_eqb_eq a b : str_eqb a b = true <-> a = b.
Proof. unfold str_eqb; destruct (list_eq_dec N.eq_dec a b); split; congruence. Qed.

Lemma str_eqb_neq a b : str_eqb a b = false <-> a <> b.
Proof. unfold str_eqb; destruct (list_eq_dec N.eq_dec a b); split; congruence. Qed.

Lemma str_eqb_refl a : str_eqb a a = true.
Proof. apply str_eqb_eq; reflexivity. Qed.

(* ---------- exceptions and results ---------- *)
Inductive exn :=
| KeyError | ValueError | TypeError | IndexError | AssertionError
| StopIteration | NotImplementedError | OSError (enoent : bool)
| PlainException | MafFormat (tpe : Z) (line : option Z).

Inductive res (A : Type) := Ok (a : A) | Raise (e : exn).
Arguments Ok {A} a.
Arguments Raise {A} e.

Definition bind {A B} (r : res A) (f : A -> res B) : res B :=
  match r with Ok a => f a | Raise e => Raise e end.

Definition exn_code (e : exn) : Z :=
  match e with
  | KeyError => 1 | ValueError => 2 | TypeError => 3 | IndexError => 4
  | AssertionError => 5 | StopIteration => 6 | NotImplementedError => 7
  | OSError _ => 8 | PlainException => 9 | MafFormat _ _ => 10
  end.

(* ---------- S-expressions: atoms are integers ---------- *)
Inductive sexp := A (z : Z) | L (l : list sexp).

Definition s_of_str (s : str) : sexp := L (map (fun c => A (Z.of_N c)) s).
Definition s_of_bool (b : bool) : sexp := A (if b then 1 else 0).
Definition s_of_nat (n : nat) : sexp := A (Z.of_nat n).
Definition s_of_opt {X} (f : X -> sexp) (o : option X) : sexp :=
  match o with None => L [] | Some x => L [f x] end.
Definition s_of_list {X} (f : X -> sexp) (l : list X) : sexp := L (map f l).

Definition as_Z (s : sexp) : option Z := match s with A z => Some z | L _ => None end.
Definition as_list (s : sexp) : option (list sexp) := match s with L l => Some l | A _ => None end.

Fixpoint opt_all {X} (l : list (option X)) : option (list X) :=
  match l with
  | [] => Some []
  | None :: _ => None
  | Some x :: r => match opt_all r with Some r' => Some (x :: r') | None => None end
  end.

Definition as_char (s : sexp) : option char :=
  match s with A z => if z <? 0 then None else Some (Z.to_N z) | L _ => None end.
Definition as_str (s : sexp) : option str :=
  match s with L l => opt_all (map as_char l) | A _ => None end.
Definition as_bool (s : sexp) : option bool :=
  match s with A z => Some (negb (z =? 0)) | L _ => None end.
Definition as_opt {X} (f : sexp -> option X) (s : sexp) : option (option X) :=
  match s with
  | L [] => Some None
  | L [x] => match f x with Some v => Some (Some v) | None => None end
  | _ => None
  end.
Definition as_listof {X} (f : sexp -> option X) (s : sexp) : option (list X) :=
  match s with L l => opt_all (map f l) | A _ => None end.

Definition s_of_exn (e : exn) : sexp :=
  match e with
  | MafFormat t ln => L [A 10; A t; s_of_opt A ln]
  | OSError b => L [A 8; s_of_bool b]
  | e => L [A (exn_code e)]
  end.

(* decoding failure of a case is reported as this marker *)
Definition s_bad : sexp := L [A (-999)].

(* ---------- association lists with python dict discipline ---------- *)
Section Assoc.
  Context {V : Type}.
  Fixpoint assoc (k : str) (d : list (str * V)) : option V :=
    match d with
    | [] => None
    | (k', v) :: r => if str_eqb k k' then Some v else assoc k r
    end.
  (* d[k] = v : replace in place, else append *)
  Fixpoint dset (k : str) (v : V) (d : list (str * V)) : list (str * V) :=
    match d with
    | [] => [(k, v)]
    | (k', v') :: r => if str_eqb k k' then (k, v) :: r else (k', v') :: dset k v r
    end.
  Fixpoint ddel (k : str) (d : list (str * V)) : list (str * V) :=
    match d with
    | [] => []
    | (k', v') :: r => if str_eqb k k' then r else (k', v') :: ddel k r
    end.
End Assoc.

(* list update / padding *)
Fixpoint lset {X} (n : nat) (x : X) (l : list X) : list X :=
  match n, l with
  | _, [] => []
  | O, _ :: r => x :: r
  | S n', y :: r => y :: lset n' x r
  end.

Definition is_none {X} (o : option X) : bool := match o with None => true | Some _ => false end.
Definition is_some {X} (o : option X) : bool := negb (is_none o).
