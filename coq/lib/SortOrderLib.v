(* SortOrderLib.v - host functions the sort-order cluster needs:
   python's `<` on str (code point lexicographic order), str(int), int(text)
   for ASCII text, list.index.  Definitions first, lemmas after. *)
From MafVerif Require Import lib.Base lib.Str.
From Coq Require Import Decimal DecimalZ DecimalPos.

(* ---------- str comparison: lexicographic on code points ---------- *)
Fixpoint str_cmp (a b : str) : comparison :=
  match a, b with
  | [], [] => Eq
  | [], _ :: _ => Lt
  | _ :: _, [] => Gt
  | x :: a', y :: b' =>
      match N.compare x y with Eq => str_cmp a' b' | c => c end
  end.
Definition str_ltb (a b : str) : bool := match str_cmp a b with Lt => true | _ => false end.

(* ---------- str(int) : canonical decimal ---------- *)
Fixpoint codes_of_uint (u : uint) : str :=
  match u with
  | Nil => []
  | D0 r => 48%N :: codes_of_uint r | D1 r => 49%N :: codes_of_uint r
  | D2 r => 50%N :: codes_of_uint r | D3 r => 51%N :: codes_of_uint r
  | D4 r => 52%N :: codes_of_uint r | D5 r => 53%N :: codes_of_uint r
  | D6 r => 54%N :: codes_of_uint r | D7 r => 55%N :: codes_of_uint r
  | D8 r => 56%N :: codes_of_uint r | D9 r => 57%N :: codes_of_uint r
  end.
Definition render_int (z : Z) : str :=
  match Z.to_int z with
  | Pos u => codes_of_uint u
  | Neg u => DASH :: codes_of_uint u
  end.

(* ---------- int(text), base 10, ASCII text ----------
   CPython (PyLong_FromString): skip leading Py_ISSPACE, one optional sign,
   digits with single interior underscores, skip trailing Py_ISSPACE, end.
   Non-ASCII text (unicode digits / spaces) is outside the modelled zone, as
   is the 4300 digit limit of sys.int_max_str_digits. *)
Definition is_int_space (c : char) : bool := ((9 <=? c) && (c <=? 13) || (c =? 32))%N.
Definition is_digit (c : char) : bool := ((48 <=? c) && (c <=? 57))%N.

Fixpoint lstrip (f : char -> bool) (s : str) : str :=
  match s with
  | [] => []
  | x :: r => if f x then lstrip f r else s
  end.

(* drops the underscores; None unless digit (_? digit)* *)
Fixpoint strip_us (s : str) (prev_digit : bool) : option str :=
  match s with
  | [] => if prev_digit then Some [] else None
  | c :: r =>
      if is_digit c then option_map (cons c) (strip_us r true)
      else if (c =? 95)%N && prev_digit then strip_us r false
      else None
  end.

Fixpoint uint_of_codes (s : str) : option uint :=
  match s with
  | [] => Some Nil
  | c :: r =>
      match uint_of_codes r with
      | None => None
      | Some u =>
          if (c =? 48)%N then Some (D0 u) else if (c =? 49)%N then Some (D1 u)
          else if (c =? 50)%N then Some (D2 u) else if (c =? 51)%N then Some (D3 u)
          else if (c =? 52)%N then Some (D4 u) else if (c =? 53)%N then Some (D5 u)
          else if (c =? 54)%N then Some (D6 u) else if (c =? 55)%N then Some (D7 u)
          else if (c =? 56)%N then Some (D8 u) else if (c =? 57)%N then Some (D9 u)
          else None
      end
  end.

(* one optional sign: (negative?, rest) *)
Definition split_sign (s : str) : bool * str :=
  match s with
  | c :: r => if (c =? 45)%N then (true, r) else if (c =? 43)%N then (false, r) else (false, s)
  | [] => (false, s)
  end.

Definition py_int (s : str) : option Z :=
  let s1 := rstrip is_int_space (lstrip is_int_space s) in
  match strip_us (snd (split_sign s1)) false with
  | None => None
  | Some ds =>
      match uint_of_codes ds with
      | None => None
      | Some u => Some (if fst (split_sign s1) then - Z.of_uint u else Z.of_uint u)
      end
  end.

(* list.index(x) on a list of str *)
Fixpoint index_from (x : str) (l : list str) (i : Z) : option Z :=
  match l with
  | [] => None
  | y :: r => if str_eqb y x then Some i else index_from x r (i + 1)
  end.
Definition index_of (x : str) (l : list str) : option Z := index_from x l 0.

(* ---------- lemmas: str_cmp is a total order ---------- *)
Lemma str_cmp_refl a : str_cmp a a = Eq.
Proof. induction a as [|x a IH]; simpl; [reflexivity|]. now rewrite N.compare_refl. Qed.

Lemma str_cmp_eq a b : str_cmp a b = Eq <-> a = b.
Proof.
  split; [|intros ->; apply str_cmp_refl].
  revert b; induction a as [|x a IH]; intros [|y b]; simpl; try discriminate; [reflexivity|].
  destruct (N.compare x y) eqn:E; try discriminate.
  apply N.compare_eq in E. intros H. apply IH in H. congruence.
Qed.

Lemma str_cmp_antisym a b : str_cmp b a = CompOpp (str_cmp a b).
Proof.
  revert b; induction a as [|x a IH]; intros [|y b]; simpl; try reflexivity.
  rewrite (N.compare_antisym x y). destruct (N.compare x y); simpl; auto.
Qed.

Lemma str_cmp_trans c a b d : str_cmp a b = c -> str_cmp b d = c -> str_cmp a d = c.
Proof.
  revert b d; induction a as [|x a IH]; intros [|y b] [|z d]; simpl; try congruence.
  destruct (N.compare x y) eqn:Exy; destruct (N.compare y z) eqn:Eyz;
    try (apply N.compare_eq in Exy; subst); try (apply N.compare_eq in Eyz; subst);
    try rewrite Exy; try rewrite Eyz; try rewrite N.compare_refl; try congruence; eauto.
  - intros <- _. rewrite N.compare_lt_iff in *. assert (x < z)%N by lia.
    apply N.compare_lt_iff in H. now rewrite H.
  - intros <- _. rewrite N.compare_gt_iff in *. assert (z < x)%N by lia.
    apply N.compare_gt_iff in H. now rewrite H.
Qed.

Lemma str_cmp_eq_l a b d : str_cmp a b = Eq -> str_cmp a d = str_cmp b d.
Proof. intros H. apply str_cmp_eq in H. now subst. Qed.

(* ---------- lemmas: int(str(z)) = z ---------- *)
Lemma uint_of_codes_of_uint u : uint_of_codes (codes_of_uint u) = Some u.
Proof. induction u; simpl; try rewrite IHu; reflexivity. Qed.

Lemma codes_digits u : forallb is_digit (codes_of_uint u) = true.
Proof. induction u; simpl; auto. Qed.

Lemma strip_us_digits s b : forallb is_digit s = true -> (s <> [] \/ b = true) -> strip_us s b = Some s.
Proof.
  revert b; induction s as [|c r IH]; simpl; intros b H Hn.
  - destruct Hn as [Hn| ->]; [congruence|reflexivity].
  - apply andb_true_iff in H as [Hc Hr]. rewrite Hc. rewrite IH; auto.
Qed.

Lemma lstrip_not f s : match s with [] => True | x :: _ => f x = false end -> lstrip f s = s.
Proof. destruct s; simpl; [reflexivity|]. now intros ->. Qed.

Lemma digit_not_space c : is_digit c = true -> is_int_space c = false.
Proof.
  unfold is_digit, is_int_space. rewrite andb_true_iff, !N.leb_le. intros [H1 H2].
  apply orb_false_iff. split; [apply andb_false_iff; right; apply N.leb_gt; lia|apply N.eqb_neq; lia].
Qed.

Lemma rstrip_digits s : forallb is_digit s = true -> rstrip is_int_space s = s.
Proof.
  intros H. apply rstrip_no_match. rewrite forallb_forall in *. intros c Hc.
  now rewrite digit_not_space by auto.
Qed.

Lemma codes_nonnil u : u <> Nil -> codes_of_uint u <> [].
Proof. destruct u; simpl; congruence. Qed.

Lemma py_int_codes u : u <> Nil -> py_int (codes_of_uint u) = Some (Z.of_uint u).
Proof.
  intros Hn. unfold py_int.
  pose proof (codes_digits u) as Hd. pose proof (codes_nonnil u Hn) as Hne.
  rewrite lstrip_not.
  2:{ destruct (codes_of_uint u) eqn:E; [exact I|]. simpl in Hd. apply andb_true_iff in Hd as [Hd _].
      now apply digit_not_space. }
  rewrite rstrip_digits by assumption.
  destruct (codes_of_uint u) as [|c r] eqn:E; [congruence|].
  assert (Hc : is_digit c = true) by (simpl in Hd; now apply andb_true_iff in Hd as [? _]).
  assert (Hs : split_sign (c :: r) = (false, c :: r)).
  { unfold split_sign. unfold is_digit in Hc. rewrite andb_true_iff, !N.leb_le in Hc.
    destruct (N.eqb_spec c 45); [lia|]. destruct (N.eqb_spec c 43); [lia|]. reflexivity. }
  rewrite Hs. cbn [fst snd].
  rewrite strip_us_digits by (auto; left; discriminate).
  rewrite <- E, uint_of_codes_of_uint. reflexivity.
Qed.

Lemma py_int_render z : py_int (render_int z) = Some z.
Proof.
  unfold render_int. destruct z as [|p|p]; simpl Z.to_int; cbv iota beta.
  - reflexivity.
  - rewrite py_int_codes by apply Unsigned.to_uint_nonnil.
    f_equal. change (Z.of_int (Z.to_int (Z.pos p)) = Z.pos p). apply DecimalZ.of_to.
  - pose proof (py_int_codes (Pos.to_uint p) (Unsigned.to_uint_nonnil p)) as H.
    unfold py_int in *.
    pose proof (codes_digits (Pos.to_uint p)) as Hd.
    pose proof (codes_nonnil _ (Unsigned.to_uint_nonnil p)) as Hne.
    change (lstrip is_int_space (DASH :: codes_of_uint (Pos.to_uint p)))
      with (DASH :: codes_of_uint (Pos.to_uint p)).
    assert (Hr : rstrip is_int_space (DASH :: codes_of_uint (Pos.to_uint p))
                 = DASH :: codes_of_uint (Pos.to_uint p)).
    { apply rstrip_no_match. simpl. rewrite forallb_forall in *. intros c Hc.
      now rewrite digit_not_space by auto. }
    rewrite Hr. change (split_sign (DASH :: codes_of_uint (Pos.to_uint p)))
      with (true, codes_of_uint (Pos.to_uint p)). cbn [fst snd].
    rewrite strip_us_digits by (auto; left; assumption).
    rewrite uint_of_codes_of_uint. f_equal.
    change (Z.of_int (Z.to_int (Z.neg p)) = Z.neg p). apply DecimalZ.of_to.
Qed.

Lemma index_from_some x l i j : index_from x l i = Some j ->
  (i <= j) /\ nth_error l (Z.to_nat (j - i)) = Some x.
Proof.
  revert i; induction l as [|y r IH]; simpl; intros i H; [discriminate|].
  destruct (str_eqb y x) eqn:E.
  - injection H as <-. apply str_eqb_eq in E. subst. rewrite Z.sub_diag. split; [lia|reflexivity].
  - apply IH in H as [H1 H2]. split; [lia|].
    replace (Z.to_nat (j - i)) with (S (Z.to_nat (j - (i + 1)))) by lia. exact H2.
Qed.

Lemma index_from_none x l i : index_from x l i = None <-> ~ In x l.
Proof.
  revert i; induction l as [|y r IH]; simpl; intros i; [tauto|].
  destruct (str_eqb y x) eqn:E.
  - apply str_eqb_eq in E. split; [discriminate|]. intros H. exfalso. apply H. now left.
  - apply str_eqb_neq in E. rewrite IH. tauto.
Qed.

Lemma index_of_none x l : index_of x l = None <-> ~ In x l.
Proof. apply index_from_none. Qed.
