(* SpecModes.v - what C03 demands of an entry point that takes a validation
   stringency, stated over the three outcomes (log, result) obtained for the
   same input under Silent, Lenient and Strict. *)
From MafVerif Require Import lib.Base model.Validation.

Definition not_format {X} (r : res X) : Prop := forall t ln, r <> Raise (MafFormat t ln).

(* the exception Strict must raise for the first collected error *)
Definition format_of (e : verr) : exn := MafFormat (etpe e) (eline e).

(* [errs_of x]: the error list collected in the result; [same x y]: equal
   except for the stringency the object remembers.
   - Silent logs nothing and never raises the format exception; nor does Lenient
   - Lenient returns the same thing as Silent (or fails with the same other
     exception) and logs exactly one warning per collected error, in order
   - Strict raises the format exception of the first collected error; when
     there is none it returns the same thing and logs nothing *)
Definition stringency_contract {X} (lg : logger) (errs_of : X -> list verr) (same : X -> X -> Prop)
           (S L T : out X) : Prop :=
  fst S = [] /\ not_format (snd S) /\ not_format (snd L) /\
  match snd S with
  | Ok x =>
      (exists y, snd L = Ok y /\ same x y /\ errs_of y = errs_of x) /\
      fst L = map (LIgnored lg) (errs_of x) /\
      match errs_of x with
      | [] => fst T = [] /\ exists z, snd T = Ok z /\ same x z /\ errs_of z = []
      | e0 :: _ => fst T = [] /\ snd T = Raise (format_of e0)
      end
  | Raise e => fst L = [] /\ snd L = Raise e /\ fst T = [] /\ snd T = Raise e
  end.

(* a log warns about every error of a list *)
Definition warns_all (l : log) (errs : list verr) : Prop :=
  forall e, In e errs -> exists lg, In (LIgnored lg e) l.

(* the longest prefix of records that collected no error *)
Fixpoint clean_prefix {R} (errs_of : R -> list verr) (rs : list R) : list R :=
  match rs with
  | [] => []
  | r :: rest => match errs_of r with [] => r :: clean_prefix errs_of rest | _ => [] end
  end.
