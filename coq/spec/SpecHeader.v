(* SpecHeader.v - what C13 and C17 demand, stated without reference to the
   model: how a single header line classifies, the expected header of a
   sequence of lines (first of duplicates wins, 1-based positions), the
   expected diagnostics, and the physical line numbering of a file. *)
From MafVerif Require Import lib.Base lib.Str.

(* the keys and sort-order names the format documents *)
Definition SP_VERSION : str := [118;101;114;115;105;111;110]%N. (* version *)
Definition SP_ANNOT : str := [97;110;110;111;116;97;116;105;111;110;46;115;112;101;99]%N. (* annotation.spec *)
Definition SP_SORT : str := [115;111;114;116;46;111;114;100;101;114]%N. (* sort.order *)
Definition SP_CONTIGS : str := [99;111;110;116;105;103;115]%N. (* contigs *)
Definition SP_ORDER_NAMES : list str :=
  [ [85;110;107;110;111;119;110]%N;                                                 (* Unknown *)
    [85;110;115;111;114;116;101;100]%N;                                             (* Unsorted *)
    [66;97;114;99;111;100;101;115;65;110;100;67;111;111;114;100;105;110;97;116;101]%N; (* BarcodesAndCoordinate *)
    [67;111;111;114;100;105;110;97;116;101]%N ].                                    (* Coordinate *)
Definition SP_COORD_NAMES : list str :=
  [ [66;97;114;99;111;100;101;115;65;110;100;67;111;111;114;100;105;110;97;116;101]%N;
    [67;111;111;114;100;105;110;97;116;101]%N ].

(* ---------- one line ---------- *)
Inductive category := MissingStart | MissingSep | EmptyKey | EmptyValue | BadSortOrder.
Inductive classified := WellFormed (key value : str) | Malformed (c : category).

(* a well-formed pragma is  '#' key ' ' text  where key is non-empty and has no
   space, and value = text without trailing whitespace is non-empty; the value
   of sort.order must name a known order *)
Definition classify (line : str) : classified :=
  match line with
  | c :: body =>
      if negb (N.eqb c HASH) then Malformed MissingStart
      else match split1 SP body with
           | (_, None) => Malformed MissingSep
           | (key, Some text) =>
               match key, rstrip_ws text with
               | [], _ => Malformed EmptyKey
               | _, [] => Malformed EmptyValue
               | _, value =>
                   if str_eqb key SP_SORT && negb (existsb (str_eqb value) SP_ORDER_NAMES)
                   then Malformed BadSortOrder
                   else WellFormed key value
               end
           end
  | [] => Malformed MissingStart
  end.

(* the error-type number of each diagnostic (MafValidationErrorType order) *)
Inductive diag := DMalformed (c : category) | DDuplicate.
Definition diag_code (d : diag) : Z :=
  match d with
  | DMalformed MissingStart => 1 | DMalformed MissingSep => 2 | DMalformed EmptyKey => 3
  | DMalformed EmptyValue => 4 | DDuplicate => 5 | DMalformed BadSortOrder => 10
  end.

(* ---------- a sequence of lines ---------- *)
(* kept pragmas (line number, key, value) in order, and diagnostics (what,
   line number) in order; `n` lines precede, `seen` are the keys kept so far *)
Fixpoint expected (n : Z) (seen : list str) (lines : list str)
  : list (Z * str * str) * list (diag * Z) :=
  match lines with
  | [] => ([], [])
  | l :: rest =>
      let k := n + 1 in
      match classify l with
      | Malformed c =>
          let '(kept, ds) := expected k seen rest in (kept, (DMalformed c, k) :: ds)
      | WellFormed key value =>
          if existsb (str_eqb key) seen then
            let '(kept, ds) := expected k seen rest in (kept, (DDuplicate, k) :: ds)
          else
            let '(kept, ds) := expected k (key :: seen) rest in ((k, key, value) :: kept, ds)
      end
  end.

Definition expected_header (lines : list str) := expected 0 [] lines.

(* the value a kept pragma stands for *)
Inductive pragma_value :=
| PText (s : str)
| PContigs (names : list str)
| POrder (name : str) (contigs : list str).

Fixpoint kept_value (key : str) (kept : list (Z * str * str)) : option str :=
  match kept with
  | [] => None
  | (_, k, v) :: rest => if str_eqb key k then Some v else kept_value key rest
  end.

(* contigs are the comma-separated names; a coordinate-type sort order carries
   the header's contig list *)
Definition interpret (kept : list (Z * str * str)) (key value : str) : pragma_value :=
  if str_eqb key SP_CONTIGS then PContigs (split COMMA value)
  else if str_eqb key SP_SORT then
    POrder value
           (if existsb (str_eqb value) SP_COORD_NAMES
            then match kept_value SP_CONTIGS kept with
                 | Some cs => split COMMA cs
                 | None => []
                 end
            else [])
  else PText value.

(* ---------- the header-level checks as a decision table ---------- *)
(* inputs: is there a version / is it one a known scheme has; is the scheme the
   pragmas name a basic one; is there an annotation / is it one a known scheme
   has.  outputs: the error types, in order. *)
Definition header_checks (has_version version_known basic has_annot annot_known : bool) : list Z :=
  (if negb has_version then [6] else if negb version_known then [7] else []) ++
  (if basic then (if has_annot then [9] else [])
   else if negb has_annot then [8] else if negb annot_known then [9] else []).

(* ---------- physical line numbering of a file (C17) ---------- *)
(* header lines are the maximal prefix of lines that start with '#' once the
   line terminator is removed; the next line is the column-name line; the rest
   are data lines *)
Definition is_pragma (l : str) : bool := startswith (rstrip_crlf l) [HASH].

Fixpoint split_file (lines : list str) : list str * option (str * list str) :=
  match lines with
  | [] => ([], None)
  | l :: rest =>
      if is_pragma l then let '(h, t) := split_file rest in (l :: h, t)
      else ([], Some (l, rest))
  end.

(* 1-based physical numbers: header line k (1-based) is k; the column line (or
   the place where it is missing) is H+1; data line j (0-based) is H+2+j *)
Definition phys_column (H : nat) : Z := Z.of_nat H + 1.
Definition phys_data (H j : nat) : Z := Z.of_nat H + 2 + Z.of_nat j.
