(* SpecSchemes.v - what property C14 demands of a set of scheme definitions,
   written without reference to the factory's algorithm (no work list, no
   dict updates): the layout of a definition by recursion on its ancestry,
   and the well-formedness of a definition set.  Shares only the data types
   (cls, column, datum, col_dict) with the model. *)
From Coq Require Import Permutation.
From MafVerif Require Import lib.Base lib.Str model.SchemeFactory.

(* the definition a name refers to *)
Definition lookup_def (ds : list datum) (a : str) : option datum :=
  find (fun d => str_eqb (dannot d) a) ds.

(* the base a definition names: None for a root ("None", null and "" all mean root) *)
Definition base_name (d : datum) : option str :=
  match dextends d with
  | Some (c :: e) => Some (c :: e)
  | _ => None
  end.

(* every column of a definition is declared once *)
Definition clean_def (d : datum) : Prop := NoDup (map cname (dcolumns d)).
Definition clean_defs (ds : list datum) : Prop := forall d, In d ds -> clean_def d.

Section Spec.
  Variable mixok : cls -> cls -> bool.

  (* a base column redefined by the derived definition keeps its place; its
     class is the synthesised (extra, base) class, its description the new one *)
  Definition override1 (extras : list column) (b : str * column) : option (str * column) :=
    match find (fun e => str_eqb (cname e) (fst b)) extras with
    | None => Some b
    | Some e =>
        if mixok (ccls e) (ccls (snd b))
        then Some (fst b, {| cname := cname e; ccls := CMix (ccls e) (ccls (snd b)); cdesc := cdesc e |})
        else None
    end.

  (* base layout in base order (redefined columns in place), then the new
     columns in declaration order, minus the filtered names; undefined when a
     redefinition is impossible or a filtered name is not a column *)
  Definition spec_combine (base : col_dict) (extras : list column) (filtered : option (list str))
    : option col_dict :=
    match opt_all (map (override1 extras) base) with
    | None => None
    | Some over =>
        let news := map (fun e => (cname e, e))
                        (filter (fun e => negb (mem (cname e) (map fst base))) extras) in
        let all := over ++ news in
        match filtered with
        | None => Some all
        | Some fl =>
            if forallb (fun f => mem f (map fst all)) fl
            then Some (filter (fun kv => negb (mem (fst kv) fl)) all)
            else None
        end
    end.

  (* layout of d among ds: a root's own columns; a derived definition's
     combination with the layout of its base.  Undefined (None) when a base is
     not defined in ds, when the ancestry is longer than the fuel (with
     fuel = |ds|: a cycle), or when a combination is undefined. *)
  Fixpoint layout_fuel (fuel : nat) (ds : list datum) (d : datum) : option col_dict :=
    match fuel with
    | O => None
    | S f =>
        match base_name d with
        | None => spec_combine [] (dcolumns d) (dfiltered d)
        | Some b =>
            match lookup_def ds b with
            | None => None
            | Some p =>
                match layout_fuel f ds p with
                | None => None
                | Some bl => spec_combine bl (dcolumns d) (dfiltered d)
                end
            end
        end
    end.

  Definition layout (ds : list datum) (d : datum) : option col_dict :=
    layout_fuel (length ds) ds d.

  (* a definition set is well-formed: annotations are distinct and every
     definition has a layout (its bases exist, its ancestry is not cyclic, its
     redefinitions can be synthesised, its filter names existing columns).
     "Known column types" is checked when the files are read, before a datum
     exists (C14_unknown_type_rejected). *)
  Definition wf_defs (ds : list datum) : Prop :=
    NoDup (map dannot ds) /\ forall d, In d ds -> exists l, layout ds d = Some l.

  (* the scheme the property expects for a definition *)
  Definition expected_scheme (ds : list datum) (d : datum) (sc : bscheme) : Prop :=
    bversion sc = dversion d /\ bannot sc = dannot d /\ layout ds d = Some (bcols sc).

  (* the ways a definition set can be ill-formed, one by one *)
  Definition duplicate_annotation (ds : list datum) : Prop := ~ NoDup (map dannot ds).
  Definition unknown_base (ds : list datum) : Prop :=
    exists d b, In d ds /\ base_name d = Some b /\ forall p, In p ds -> dannot p <> b.
  (* d0 extends d1 extends ... extends d0 *)
  Fixpoint chain (ds : list datum) (first : datum) (l : list datum) (last : datum) : Prop :=
    match l with
    | [] => first = last
    | x :: r => In x ds /\ base_name first = Some (dannot x) /\ chain ds x r last
    end.
  Definition inheritance_cycle (ds : list datum) : Prop :=
    exists d l, In d ds /\ l <> [] /\ chain ds d l d.
  Definition bad_combination (ds : list datum) : Prop :=
    exists d, In d ds /\
      match base_name d with
      | None => spec_combine [] (dcolumns d) (dfiltered d) = None
      | Some b => exists p bl, lookup_def ds b = Some p /\ layout ds p = Some bl /\
                               spec_combine bl (dcolumns d) (dfiltered d) = None
      end.
  (* a filter that names no column of a root, as a special case of the above *)
  Definition root_filter_missing (d : datum) : Prop :=
    base_name d = None /\ exists fl f, dfiltered d = Some fl /\ In f fl /\ ~ In f (map cname (dcolumns d)).
End Spec.

(* two results of building the same definitions in different orders: both
   fail, or both succeed with the same annotation -> scheme map *)
Definition same_outcome (r1 r2 : res (list (str * bscheme))) : Prop :=
  match r1, r2 with
  | Ok m1, Ok m2 => (forall a, assoc a m1 = assoc a m2) /\ Permutation (map fst m1) (map fst m2)
  | Raise _, Raise _ => True
  | _, _ => False
  end.
