(* SpecOrder.v - the documented order of MAF records (property C08):
   compare, in sequence, tumor barcode and matched-normal barcode (barcode
   order only), chromosome (by position in the contig list when one is
   supplied, otherwise by name), numeric start, numeric end; a missing value
   comes last.  Written on the documented components of a record; shares with
   the model only the host library (text order, int(text), str(int)) and the
   type of the objects keys are built from. *)
From MafVerif Require Import lib.Base lib.SortOrderLib model.SortOrder.

(* the documented components of a record; None = missing *)
Record srec := {
  s_tumor : option str; s_normal : option str;
  s_chrom : option str;                 (* the chromosome's name *)
  s_start : option Z; s_end : option Z }.

(* a component order with "missing last" *)
Definition opt_cmp {X} (c : X -> X -> comparison) (x y : option X) : comparison :=
  match x, y with
  | None, None => Eq
  | None, Some _ => Gt
  | Some _, None => Lt
  | Some a, Some b => c a b
  end.

(* compare in sequence *)
Definition then_cmp (c1 c2 : comparison) : comparison :=
  match c1 with Eq => c2 | _ => c1 end.

(* position of a name in the supplied contig list *)
Definition rank (contigs : list str) (c : option str) : option Z :=
  match c with None => None | Some n => index_of n contigs end.

(* the order is defined for a record when no contig list is supplied, or its
   chromosome is missing, or its chromosome is in the list; otherwise the
   record has to be reported as an error *)
Definition listed (contigs : list str) (r : srec) : Prop :=
  contigs = [] \/ s_chrom r = None \/ exists i, rank contigs (s_chrom r) = Some i.

Definition chrom_cmp (contigs : list str) (a b : option str) : comparison :=
  match contigs with
  | [] => opt_cmp str_cmp a b
  | _ :: _ => opt_cmp Z.compare (rank contigs a) (rank contigs b)
  end.

Definition spec_cmp (by_barcodes : bool) (contigs : list str) (a b : srec) : comparison :=
  then_cmp (if by_barcodes
            then then_cmp (opt_cmp str_cmp (s_tumor a) (s_tumor b))
                          (opt_cmp str_cmp (s_normal a) (s_normal b))
            else Eq)
  (then_cmp (chrom_cmp contigs (s_chrom a) (s_chrom b))
  (then_cmp (opt_cmp Z.compare (s_start a) (s_start b))
            (opt_cmp Z.compare (s_end a) (s_end b)))).

(* the result convention of __cmp__ *)
Definition zc (c : comparison) : Z := match c with Lt => -1 | Eq => 0 | Gt => 1 end.

(* ---------- reading the documented components off an object ----------
   names are text (an integer chromosome value is named by its decimal
   rendering), positions are numbers (integer values, or text that int()
   accepts); anything else is missing *)
Definition doc_name (v : pv) : option str :=
  match v with PNone => None | PInt z => Some (render_int z) | PStr s => Some s end.
Definition doc_pos (v : pv) : option Z :=
  match v with PNone => None | PInt z => Some z | PStr s => py_int s end.
Definition doc_text (v : pv) : option str :=
  match v with PStr s => Some s | _ => None end.

Definition field (l : locatable) (name : str) (plain : pv) : pv :=
  match l with
  | Plain _ _ _ => plain
  | Maf cols => match assoc name cols with Some v => v | None => PNone end
  end.

Definition doc (l : locatable) : srec :=
  match l with
  | Plain c s e =>
      {| s_tumor := None; s_normal := None; s_chrom := doc_name c;
         s_start := doc_pos s; s_end := doc_pos e |}
  | Maf _ =>
      {| s_tumor := doc_text (field l n_Tumor PNone);
         s_normal := doc_text (field l n_Normal PNone);
         s_chrom := doc_name (field l n_Chromosome PNone);
         s_start := doc_pos (field l n_Start PNone);
         s_end := doc_pos (field l n_End PNone) |}
  end.

(* barcodes are text or missing (every shipped scheme types them as strings;
   scheme-less files deliver text) *)
Definition text_or_none (v : pv) : Prop := match v with PInt _ => False | _ => True end.
Definition barcodes_text (l : locatable) : Prop :=
  text_or_none (field l n_Tumor PNone) /\ text_or_none (field l n_Normal PNone).

(* sortedness of a sequence under a "strictly before" test *)
Fixpoint chain_ok {X} (lt : X -> X -> bool) (l : list X) : Prop :=
  match l with
  | [] => True
  | a :: r => match r with [] => True | b :: _ => lt b a = false end /\ chain_ok lt r
  end.
