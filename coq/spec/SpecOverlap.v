(* SpecOverlap.v - what C11 and C12 demand, declaratively.  Shares no code
   with the model: records are seen through three projections (class = the
   chromosome, plus the barcode pair when grouping by barcodes; start; end). *)
From Coq Require Import List ZArith.
Import ListNotations.
Open Scope Z_scope.

Section SpecOverlap.
  Context {R C : Type}.
  Variable cls : R -> C.
  Variable st : R -> Z.
  Variable en : R -> Z.
  (* the documented order of classes (barcodes, then contig rank or name) *)
  Variable cls_lt : C -> C -> Prop.

  Definition wf_interval (a : R) : Prop := st a <= en a.

  (* closed intervals of one class that share a position *)
  Definition overlap (a b : R) : Prop := cls a = cls b /\ st a <= en b /\ st b <= en a.

  (* linked inside a universe: reflexive-transitive closure of overlap *)
  Inductive linked (U : list R) : R -> R -> Prop :=
  | linked_refl a : In a U -> linked U a a
  | linked_step a b c : linked U a b -> In c U -> overlap b c -> linked U a c.

  (* the documented key order: class, then start, then end *)
  Definition key_before (a b : R) : Prop :=
    cls_lt (cls a) (cls b) \/
    (cls a = cls b /\ (st a < st b \/ (st a = st b /\ en a < en b))).
  Definition key_le (a b : R) : Prop := key_before a b \/ (cls a = cls b /\ st a = st b /\ en a = en b).

  (* an input is sorted when no record is followed by one that comes before it *)
  Fixpoint sorted_input (l : list R) : Prop :=
    match l with
    | [] => True
    | a :: r => match r with [] => True | b :: _ => key_le a b end /\ sorted_input r
    end.

  (* a group has one slot per input *)
  Definition members (g : list (list R)) : list R := concat g.
  Definition same_group (gs : list (list (list R))) (a b : R) : Prop :=
    exists g, In g gs /\ In a (members g) /\ In b (members g).

  (* groups come out in key order: everything in an earlier group is before
     everything in a later group *)
  Fixpoint ascending (gs : list (list (list R))) : Prop :=
    match gs with
    | [] => True
    | g :: r => (forall g' a b, In g' r -> In a (members g) -> In b (members g') -> key_before a b)
                /\ ascending r
    end.

  Definition slot_concat (i : nat) (gs : list (list (list R))) : list R :=
    concat (map (fun g => nth i g []) gs).

  (* C11: the output is an exact grouping of the inputs *)
  Definition exact_grouping (inputs : list (list R)) (gs : list (list (list R))) : Prop :=
    let U := concat inputs in
    Forall (fun g => length g = length inputs) gs /\
    (forall i, slot_concat i gs = nth i inputs []) /\
    Forall (fun g => members g <> []) gs /\
    (forall a b, In a U -> In b U -> (same_group gs a b <-> linked U a b)) /\
    ascending gs.
End SpecOverlap.

(* ---------------- C12: allele compatibility -------------------------------- *)
Section SpecAllele.
  Context {R A : Type}.           (* A: the type of an allele (text) *)
  Variable ref : R -> A.
  Variable alts : R -> list A.

  Inductive relation3 := REquality | RIntersects | RSubset.

  (* the three documented relations between the alternate alleles of a record
     of the first input (base) and another record (other) *)
  Definition rel (t : relation3) (base other : list A) : Prop :=
    match t with
    | REquality => base = other
    | RIntersects => (exists x, In x base /\ In x other) \/ base = other
    | RSubset => forall x, In x other -> In x base
    end.

  Definition compatible (t : relation3) (item other : R) : Prop :=
    ref item = ref other /\ rel t (alts item) (alts other).
  (* a record is accepted by a class when it is compatible with some member *)
  Definition accepted (t : relation3) (items : list R) (other : R) : Prop :=
    exists item, In item items /\ compatible t item other.

  (* order-preserving sub-list *)
  Inductive subseq : list R -> list R -> Prop :=
  | subseq_nil : subseq [] []
  | subseq_skip x l m : subseq l m -> subseq l (x :: m)
  | subseq_take x l m : subseq l m -> subseq (x :: l) (x :: m).

  (* the greedy partition of the first slot: each record joins the first class
     (in order of creation) that accepts it as the class stands at that moment,
     and founds a new class when none does *)
  Inductive greedy (t : relation3) : list (list R) -> list R -> list (list R) -> Prop :=
  | greedy_done cl : greedy t cl [] cl
  | greedy_join cl1 c cl2 x xs out :
      Forall (fun c' => ~ accepted t c' x) cl1 -> accepted t c x ->
      greedy t (cl1 ++ (c ++ [x]) :: cl2) xs out ->
      greedy t (cl1 ++ c :: cl2) (x :: xs) out
  | greedy_found cl x xs out :
      Forall (fun c' => ~ accepted t c' x) cl ->
      greedy t (cl ++ [[x]]) xs out ->
      greedy t cl (x :: xs) out.
End SpecAllele.
